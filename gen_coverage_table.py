#!/usr/bin/env python3
"""Rewrites the measured-coverage table of DESIGN.md section 0 from the committed evidence files
(the table that starts with the `| check | level | units |` header). Never run by a check."""
import json, os

ROOT = os.path.dirname(os.path.abspath(__file__))
HEAD = "| check | level | units | evaluations | non-trivial | distinct outcomes | levels completed (quick tier) | wall s |"
rows = []
for i in range(1, 21):
    cid = "C%02d" % i
    d = json.load(open(os.path.join(ROOT, "evidence", cid + ".json")))
    cov = d["coverage"]
    lv = ", ".join(cov.get("levels_completed", []))
    if len(lv) > 150:
        lv = lv[:150] + "…"
    rows.append("| %s | %s | %s | %s | %s | %s | %s | %.0f |" % (cid, d["level"], cov.get("units"), cov.get("evaluations"), cov.get("distinct_nontrivial"),
                                                          cov.get("distinct_outcomes"), lv, d.get("wall_s", 0)))
    if d.get("tier") != "quick":
        print("warning: %s evidence is from tier %s" % (cid, d.get("tier")))
p = os.path.join(ROOT, "DESIGN.md")
s = open(p).read()
i = s.index(HEAD)
j = s.index("\n\n", i)
s = s[:i] + HEAD + "\n|---|---|---|---|---|---|---|---|\n" + "\n".join(rows) + s[j:]
open(p, "w").write(s)
print("coverage table rewritten")
