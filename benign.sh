#!/bin/bash
# usage: benign.sh <dir-with-patch.diff> <name>
# Applies a behaviour-preserving change to /repo, confirms the repository's suite passes, runs ALL quick
# checks (none may alarm), restores /repo, and stores the patch under /verif/seeded/benign/<name>/.
set -u
SRC=$1; NAME=$2
OUT=/verif/seeded/benign/$NAME
mkdir -p $OUT
cp $SRC/patch.diff $OUT/patch.diff; [ -f $SRC/meta.json ] && cp $SRC/meta.json $OUT/agent_meta.json
git -C /repo diff --quiet || { echo "/repo has local changes"; exit 2; }
git -C /repo apply $OUT/patch.diff || { echo "$NAME: patch does not apply"; exit 2; }
trap 'git -C /repo checkout -q -- . ; git -C /repo clean -fdq libvore main.go 2>/dev/null; git -C /verif checkout -q -- evidence' EXIT
suite=pass; /verif/baseline_off.sh >/tmp/benign.$$ 2>&1 || suite=FAIL
res=""
for i in $(seq -w 1 20); do
  /verif/run.sh C$i quick > $OUT/check_C$i.log 2>&1; rc=$?
  [ $rc -ne 0 ] && res="$res C$i:exit=$rc" && grep -m3 "VIOLATION\|class:\|smallest\|BUILD\|HARNESS\|PREPARE" $OUT/check_C$i.log | cut -c1-300
  [ $rc -eq 0 ] && rm -f $OUT/check_C$i.log
done
echo "$NAME: suite=$suite alarms=[${res# }]" | tee -a /verif/seeded/benign/RESULTS.txt
rm -f /tmp/benign.$$
