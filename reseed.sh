#!/bin/bash
# Re-applies every stored seeded change to /repo, runs the owning check (quick) and restores /repo.
# usage: reseed.sh [name-prefix]     output: seeded/RESULTS.txt
cd /verif || exit 2
OUT=seeded/RESULTS.txt
[ -z "${1:-}" ] && : > $OUT
git -C /repo diff --quiet || { echo "/repo has local changes; aborting"; exit 2; }
for d in seeded/${1:-}*/; do
  n=$(basename $d); id=${n%%-*}
  [ -f /verif/$d/patch.diff ] || continue
  if ! git -C /repo apply --check /verif/$d/patch.diff 2>/dev/null; then
    if git -C /repo apply --3way /verif/$d/patch.diff >/dev/null 2>&1; then git -C /repo reset -q; else
      echo "$n: patch no longer applies to /repo HEAD $(git -C /repo rev-parse --short HEAD) (it was confirmed and detected at the HEAD recorded in its meta.json)" | tee -a $OUT
      git -C /repo reset -q --hard HEAD; continue
    fi
  else
    git -C /repo apply /verif/$d/patch.diff
  fi
  ./run.sh $id quick > /tmp/reseed.$$ 2>&1; rc=$?
  nv=$(grep -c '^VIOLATION' /tmp/reseed.$$)
  echo "$n: check $id exit=$rc violations=$nv $(grep -m1 -A2 '^VIOLATION' /tmp/reseed.$$ | tail -1 | tr -d '\r' | cut -c1-160)" | tee -a $OUT
  git -C /repo checkout -q -- .
done
rm -f /tmp/reseed.$$
git -C /verif checkout -q -- evidence
