package main

import (
	"fmt"
	"os"
	"path/filepath"
	"runtime"
	"sort"
	"strings"

	"github.com/jmeaster30/vore/libvore"
	"github.com/jmeaster30/vore/libvore/engine"
)

func init() {
	register(&Check{
		ID:    "C06",
		Level: "model_checking",
		Rule: "explicit enumeration of the file-system state transition of RunFiles: 23 sources (three of them with two or three commands; two whose length differences can cancel out; replacement longer / equal / shorter / empty / absent for some or all matches / multi-byte UTF-8, zero matches, match at offset 0 and at the end, adjacent matches covering the file, skip/take/last windows, anchors, find) x every file content over {a,b,\\n} up to length 4 plus 4095/4096/4097/8193-byte files with the motif at the start, across the buffer boundary and at the end x mode {NOTHING, NEW, OVERWRITE} x pre-state {no .vored, stale longer .vored, stale shorter .vored, no .vored with the directory itself as the argument - its second entry then being a symbolic link to a file elsewhere} x {one file, two files}; " +
			"state = complete directory snapshot (names and bytes); the post-state must equal the expected directory: NOTHING identical, NEW original untouched + <f>.vored == splice(input, matches, replacements) and nothing else, OVERWRITE <f> == splice and nothing else, find identical in every mode; splice is computed from Run(string); states = distinct (pre,post) directory snapshots, transitions = RunFiles calls",
		Assume: []string{"the operating system performs the writes; no crash points are explored (no property asks for it)"},
		Budget: map[string]int{"quick": 150, "thorough": 1200},
		Run:    runC06,
		Post: func(a *Agg, cov map[string]any) {
			cov["states"] = len(a.Outcomes)
			cov["transitions"] = a.Counters["runfiles_calls"]
			cov["traces_validated_against_impl"] = a.Counters["runfiles_calls"]
			cov["explanation"] = "every transition is executed on the real RunFiles in a fresh scratch directory; the expected post-state is computed from Run(string) and byte slicing"
		},
	})
}

var c06Commands = []string{
	"replace all 'a' with 'xyz'", "replace all 'a' with 'z'", "replace all 'ab' with 'z'", "replace all 'a' with ''", "replace all 'zz' with 'q'",
	"replace all any with value value", "replace skip 1 take 1 'a' with 'XY'", "replace last 1 'b' with ''", "replace all line start 'a' with 'B'",
	"replace all 'b' file end with 'END'", "replace all file start any with ''", "replace all at least 1 'a' with matchNumber '-'", "find all 'a'", "find all any",
	// matches whose replacer yields no text at all (a capture of the other alternative, an undefined name): the span is removed
	"replace all 'a' or ('b' = d) with d", "replace all 'a' with nope",
	// replacement text longer in bytes than in characters
	"replace all 'a' with '\xc3\xa9'", "replace all ('b' = x) with x '\xe2\x82\xac' x",
	// matches of different lengths replaced by one text: the differences may cancel out
	"replace all at least 1 'a' with 'xx'", "replace all 'aa' or ('b' = x) with x x",
	// several commands: a later command works on what an earlier OVERWRITE left
	"replace all 'a' with 'bb'\nreplace all 'b' with 'c'", "find all 'a'\nreplace all 'a' with ''\nfind all 'b'", "replace all 'ab' with 'b'\nreplace all 'b' with 'ab' 'a'",
}

func snapshotDir(dir string) map[string]string {
	out := map[string]string{}
	entries, _ := os.ReadDir(dir)
	for _, e := range entries {
		if e.IsDir() {
			out[e.Name()+"/"] = ""
			for n, b := range snapshotDir(filepath.Join(dir, e.Name())) {
				out[e.Name()+"/"+n] = b
			}
			continue
		}
		b, _ := os.ReadFile(filepath.Join(dir, e.Name()))
		out[e.Name()] = string(b)
	}
	return out
}

func fmtDir(m map[string]string) string {
	var ks []string
	for k := range m {
		ks = append(ks, k)
	}
	sort.Strings(ks)
	var b strings.Builder
	for _, k := range ks {
		v := m[k]
		if len(v) > 40 {
			v = fmt.Sprintf("%s..(%d bytes)..%s", v[:12], len(v), v[len(v)-12:])
		}
		fmt.Fprintf(&b, "%s=%q ", k, v)
	}
	return b.String()
}

func splice(input string, ms engine.Matches) string {
	var b strings.Builder
	last := 0
	for _, m := range ms {
		b.WriteString(input[last:m.Offset.Start])
		b.WriteString(m.Replacement.GetValueOrDefault(""))
		last = m.Offset.End
	}
	b.WriteString(input[last:])
	return b.String()
}

func bigContents() []string {
	var out []string
	for _, size := range []int{4095, 4096, 4097, 8193} {
		mk := func(pos ...int) string {
			b := []byte(strings.Repeat("c", size))
			for i := 100; i < size; i += 997 {
				b[i] = '\n'
			}
			for _, p := range pos {
				if p >= 0 && p+2 <= size {
					b[p], b[p+1] = 'a', 'b'
				}
			}
			return string(b)
		}
		out = append(out, mk(0), mk(4094, size-2), mk(0, 2047, 4095, size-2), mk(size-2), mk())
	}
	return out
}

func runC06(c *Ctx) {
	small := texts("ab\n", c.Pick(3, 4))
	contents := append(append([]string{}, small...), bigContents()...)
	contents = append(contents, "abaaa", "aaaba", "a-aaa-b", "aabb", "bbaa\nab", "aab aab", "a%b", "100%s a %d b%", "%%a%v\n%")
	modes := []engine.ReplaceMode{engine.NOTHING, engine.NEW, engine.OVERWRITE}
	// "dir-arg": no stale output, and the directory that holds the files is the argument instead of the files
	pre := []string{"none", "stale-longer", "stale-shorter", "dir-arg"}
	if !c.Level("product") {
		return
	}
	n := 0
	for _, cmd := range c06Commands {
		cmd := cmd
		v, err, pi := compileSafe(cmd)
		if err != nil || pi != nil {
			if c.Unit(func() string { return cmd }) {
				c.Violation("COMPILE", fmt.Sprintf("%q rejected: %v %v", cmd, err, pi), map[string]any{"kind": "compile", "src": cmd, "want": "accepted"})
			}
			continue
		}
		isReplace := strings.Contains(cmd, "replace ")
		// the commands of a source are executed one after the other on every file: each replace command
		// splices what it finds in the file as it is then (OVERWRITE changes it for the next command,
		// NEW leaves it and rewrites the .vored file)
		var subs []*libvore.Vore
		var subIsReplace []bool
		for _, sc := range strings.Split(cmd, "\n") {
			sv, _, _ := compileSafe(sc)
			subs = append(subs, sv)
			subIsReplace = append(subIsReplace, strings.HasPrefix(sc, "replace"))
		}
		model := func(in string, mode engine.ReplaceMode) (string, string, bool) {
			cur, vored, wrote := in, "", false
			for i, sv := range subs {
				if !subIsReplace[i] || sv == nil {
					continue
				}
				ms, _ := runSafe(sv, cur)
				out := splice(cur, ms)
				switch mode {
				case engine.NEW:
					vored, wrote = out, true
				case engine.OVERWRITE:
					cur = out
				}
			}
			return cur, vored, wrote
		}
		for _, content := range contents {
			content := content
			if !c.Unit(func() string { return fmt.Sprintf("%s on a %d-byte file %.20q", cmd, len(content), content) }) {
				continue
			}
			if _, pi := runSafe(v, content); pi != nil {
				continue // C09
			}
			want, _, _ := model(content, engine.OVERWRITE)
			for _, mode := range modes {
				for _, ps := range pre {
					for _, two := range []bool{false, true} {
						n++
						if n%300 == 0 {
							runtime.GC() // file descriptors of readers the engine does not close are released by finalizers
						}
						if ps == "dir-arg" && len(subs) > 1 {
							continue // a later command would list the .vored files an earlier one wrote
						}
						c06Case(c, v, cmd, content, want, isReplace, mode, ps, two, model)
					}
				}
			}
		}
	}
}

func c06Case(c *Ctx, v *libvore.Vore, cmd, content, want string, isReplace bool, mode engine.ReplaceMode, pre string, two bool, model func(string, engine.ReplaceMode) (string, string, bool)) {
	dir, err := os.MkdirTemp("", "vmc-c06-")
	if err != nil {
		return
	}
	defer os.RemoveAll(dir)
	files := []string{"f"}
	os.WriteFile(filepath.Join(dir, "f"), []byte(content), 0o644)
	if two {
		files = append(files, "g")
		if pre == "dir-arg" {
			// the second entry of the directory is a symbolic link to a file that lives elsewhere
			outside, _ := os.MkdirTemp("", "vmc-c06o-")
			defer os.RemoveAll(outside)
			os.WriteFile(filepath.Join(outside, "target"), []byte("ba"+content), 0o644)
			os.Symlink(filepath.Join(outside, "target"), filepath.Join(dir, "g"))
		} else {
			os.WriteFile(filepath.Join(dir, "g"), []byte("ba"+content), 0o644)
		}
	}
	switch pre {
	case "stale-longer":
		os.WriteFile(filepath.Join(dir, "f.vored"), []byte(strings.Repeat("S", len(want)+7)), 0o644)
	case "stale-shorter":
		os.WriteFile(filepath.Join(dir, "f.vored"), []byte("S"), 0o644)
	}
	before := snapshotDir(dir)
	expected := map[string]string{}
	for k, val := range before {
		expected[k] = val
	}
	if isReplace {
		for _, f := range files {
			file, vored, wrote := model(before[f], mode)
			expected[f] = file
			if wrote {
				expected[f+".vored"] = vored
			}
		}
	}
	var paths []string
	for _, f := range files {
		paths = append(paths, filepath.Join(dir, f))
	}
	if pre == "dir-arg" {
		paths = []string{dir}
	}
	c.Eval(1)
	c.Count("runfiles_calls", 1)
	if isReplace && want != content {
		c.Nontrivial(1)
	}
	var res engine.Matches
	pi := guard(func() { res = v.RunFiles(paths, mode, false) })
	rec := map[string]any{"kind": "files", "src": cmd, "content_len": len(content), "content": trunc(content, 200), "mode": mode.String(), "pre": pre, "two_files": two}
	if pi != nil {
		c.Violation("RUNFILES-PANIC "+pi.Site, fmt.Sprintf("RunFiles(%q, %d-byte file %.20q, %s, pre=%s) panics: %s", cmd, len(content), content, mode, pre, pi.Msg), rec)
		return
	}
	_ = res
	after := snapshotDir(dir)
	if mode != engine.NOTHING && isReplace && len(content) < 6 && len(content) > 2 {
		c.Sample(map[string]any{"command": cmd, "mode": mode.String(), "pre_state": fmtDir(before), "post_state": fmtDir(after)})
	}
	c.Outcome(fmtDir(before) + "=>" + fmtDir(after))
	if fmtDirFull(after) != fmtDirFull(expected) {
		what := "find"
		if isReplace {
			what = "replace"
		}
		c.Violation(fmt.Sprintf("DIRECTORY %s %s", what, mode), fmt.Sprintf("RunFiles(%q, %s, pre=%s, two=%v) on f=%.30q (%d bytes): directory is {%s}, expected {%s}", cmd, mode, pre, two, content, len(content), fmtDir(after), fmtDir(expected)), rec)
	}
}

func fmtDirFull(m map[string]string) string {
	var ks []string
	for k := range m {
		ks = append(ks, k)
	}
	sort.Strings(ks)
	var b strings.Builder
	for _, k := range ks {
		fmt.Fprintf(&b, "%q=%q;", k, m[k])
	}
	return b.String()
}

func trunc(s string, n int) string {
	if len(s) > n {
		return s[:n] + "..."
	}
	return s
}
