package main

import (
	"fmt"
	"reflect"
	"strings"

	"github.com/jmeaster30/vore/libvore/ast"
)

func init() {
	register(&Check{
		ID:    "C16",
		Level: "exploration",
		Rule: "exhaustive: every byte 0x01..0x7f x every spelling (raw, \\xHH, \\xhh, named escape, backslash-char) x both quote styles; every PAIR of bytes (all 127x127) in every spelling combination; every string of <= 6 (thorough 7) chars over {\\, x, 0, a, G, ', \"} as a literal body in both quote styles; every string of <= 5 chars over {\\, x, X, +, -, 4, a}; 13 escape shapes at every source offset within 16 bytes of the lexer's read-buffer boundaries 4096 and 8192 (shifted by blanks before the command and by plain characters inside the literal); " +
			"oracle: an independent decoder; the parsed literal value must equal the decoded bytes, `find all <literal>` must match the decoded text exactly once and in full, and must not match any one-byte perturbation of it; non-trivial = distinct literals containing at least one escape",
		Assume: []string{"ASCII only (0x01..0x7f); a NUL byte ends the lexer's input and is excluded by the property"},
		Budget: map[string]int{"quick": 120, "thorough": 900},
		Run:    runC16,
	})
}

func isHexByte(c byte) bool {
	return c >= '0' && c <= '9' || c >= 'a' && c <= 'f' || c >= 'A' && c <= 'F'
}

func hexVal(c byte) byte {
	switch {
	case c >= '0' && c <= '9':
		return c - '0'
	case c >= 'a' && c <= 'f':
		return c - 'a' + 10
	}
	return c - 'A' + 10
}

// decodeBody: what a literal body denotes between quotes q, per the documented
// escapes; ok=false if the body is not a complete literal for that quote.
func decodeBody(body string, q byte) (string, bool) {
	var out []byte
	for i := 0; i < len(body); i++ {
		c := body[i]
		if c == q {
			return "", false
		}
		if c != '\\' {
			out = append(out, c)
			continue
		}
		i++
		if i >= len(body) {
			return "", false // lone backslash would escape the closing quote
		}
		e := body[i]
		switch e {
		case 'n':
			out = append(out, 10)
		case 't':
			out = append(out, 9)
		case 'r':
			out = append(out, 13)
		case 'a':
			out = append(out, 7)
		case 'b':
			out = append(out, 8)
		case 'f':
			out = append(out, 12)
		case 'v':
			out = append(out, 11)
		case 'x':
			if i+2 < len(body)+0 && isHexByte(body[i+1]) && isHexByte(body[i+2]) {
				out = append(out, hexVal(body[i+1])<<4|hexVal(body[i+2]))
				i += 2
			} else {
				out = append(out, 'x') // incomplete \x keeps its following characters
			}
		default:
			out = append(out, e)
		}
	}
	for _, b := range out {
		if b == 0 || b >= 0x80 {
			return "", false // outside the ASCII claim
		}
	}
	return string(out), true
}

func spellings(c byte, q byte) []string {
	var out []string
	if c != q && c != '\\' {
		out = append(out, string([]byte{c}))
	}
	out = append(out, fmt.Sprintf("\\x%02X", c), fmt.Sprintf("\\x%02x", c))
	switch c {
	case 10:
		out = append(out, "\\n")
	case 9:
		out = append(out, "\\t")
	case 13:
		out = append(out, "\\r")
	case 7:
		out = append(out, "\\a")
	case 8:
		out = append(out, "\\b")
	case 12:
		out = append(out, "\\f")
	case 11:
		out = append(out, "\\v")
	}
	if !strings.ContainsRune("ntrabfvx", rune(c)) && c >= 0x20 {
		out = append(out, "\\"+string([]byte{c}))
	}
	return out
}

func c16Literal(c *Ctx, body string, q byte) { c16LiteralAt(c, body, q, 0) }

// c16LiteralAt: pad blanks in front of the command move the literal to a chosen source offset
func c16LiteralAt(c *Ctx, body string, q byte, pad int) {
	want, ok := decodeBody(body, q)
	if !ok || want == "" {
		return
	}
	c.Eval(1)
	if strings.Contains(body, "\\") {
		c.Nontrivial(1)
	}
	lit := string([]byte{q}) + body + string([]byte{q})
	src := strings.Repeat(" ", pad) + "find all " + lit
	rec := map[string]any{"kind": "literal", "src": src, "want_bytes": fmt.Sprintf("%q", want)}
	if len(lit) > 60 {
		lit = lit[:20] + fmt.Sprintf("..(%d bytes)..", len(lit)) + lit[len(lit)-20:]
	}
	var tree *ast.Ast
	var perr error
	if pi := guard(func() { tree, perr = ast.ParseReader(strings.NewReader(src)) }); pi != nil {
		c.Violation("PANIC "+pi.Site, fmt.Sprintf("%q panics: %s", src, pi.Msg), rec)
		return
	}
	if perr != nil {
		c.Violation("REJECTED", fmt.Sprintf("literal %s (denoting %q) rejected: %s", lit, want, firstLine(perr.Error())), rec)
		return
	}
	// the literal's parsed value: the only string-valued field named Value in the tree (read by
	// reflection, so the check does not depend on the names of the syntax-tree types)
	got, found := "", false
	var walk func(x reflect.Value, depth int)
	walk = func(x reflect.Value, depth int) {
		if depth > 30 || found {
			return
		}
		switch x.Kind() {
		case reflect.Interface, reflect.Ptr:
			if !x.IsNil() {
				walk(x.Elem(), depth+1)
			}
		case reflect.Slice:
			for i := 0; i < x.Len(); i++ {
				walk(x.Index(i), depth+1)
			}
		case reflect.Struct:
			for i := 0; i < x.NumField(); i++ {
				f := x.Type().Field(i)
				if f.Name == "Value" && x.Field(i).Kind() == reflect.String {
					got, found = x.Field(i).String(), true
					return
				}
				if f.IsExported() {
					walk(x.Field(i), depth+1)
				}
			}
		}
	}
	for _, cm := range tree.Commands() {
		walk(reflect.ValueOf(&cm).Elem(), 0)
	}
	c.Outcome(got)
	if !found || got != want {
		c.Violation("VALUE "+escapeKinds(body), fmt.Sprintf("literal %s denotes %q, parsed value is %q", lit, want, got), rec)
		return
	}
	v, err, pi := compileSafe(src)
	if err != nil || pi != nil {
		c.Violation("REJECTED", fmt.Sprintf("%q: %v %v", src, err, pi), rec)
		return
	}
	ms, pi := runSafe(v, want)
	if pi != nil || len(ms) != 1 || ms[0].Offset.Start != 0 || ms[0].Offset.End != len(want) {
		c.Violation("MATCH "+escapeKinds(body), fmt.Sprintf("%q on its own text %q: %v (panic %v)", src, want, spansOf(ms), pi), rec)
		return
	}
	// near misses: every one-byte perturbation must not match in full
	for i := 0; i < len(want); i++ {
		if len(want) > 64 && i > 0 && i < len(want)-8 {
			continue // long literals (buffer-boundary level): the first byte and the last eight
		}
		for _, d := range []byte{1, 0x20, 0x5f} {
			p := []byte(want)
			p[i] ^= d
			if p[i] == 0 || p[i] >= 0x80 {
				continue
			}
			ms, pi := runSafe(v, string(p))
			if pi != nil {
				c.Violation("MATCH-PANIC", fmt.Sprintf("%q on %q panics", src, string(p)), rec)
				return
			}
			for _, m := range ms {
				if m.Offset.Start == 0 && m.Offset.End == len(p) {
					c.Violation("NEAR-MISS "+escapeKinds(body), fmt.Sprintf("%q also matches %q", src, string(p)), rec)
					return
				}
			}
		}
	}
}

func escapeKinds(body string) string {
	acc := map[string]bool{}
	for i := 0; i+1 < len(body); i++ {
		if body[i] == '\\' {
			e := body[i+1]
			switch {
			case e == 'x':
				acc["\\x"] = true
			case strings.ContainsRune("ntrabfv", rune(e)):
				acc["named"] = true
			default:
				acc["backslash-char"] = true
			}
			i++
		}
	}
	if len(acc) == 0 {
		return "raw"
	}
	return joinSet(acc)
}

func runC16(c *Ctx) {
	quotes := []byte{'\'', '"'}
	if c.Level("singles") {
		for b := 1; b < 0x80; b++ {
			b := byte(b)
			if !c.Unit(func() string { return fmt.Sprintf("byte 0x%02x in every spelling", b) }) {
				continue
			}
			for _, q := range quotes {
				for _, sp := range spellings(b, q) {
					c16Literal(c, sp, q)
				}
			}
		}
	}
	subset := []byte{1, 7, 8, 9, 10, 11, 12, 13, 0x1f, ' ', '"', '\'', '0', '9', 'A', 'F', 'G', '\\', 'a', 'f', 'g', 'n', 't', 'x', 'z', '{', 0x7f, '-', '/', '@'}
	_ = subset
	var set []byte
	for b := 1; b < 0x80; b++ {
		set = append(set, byte(b))
	}
	if c.Level("pairs") {
		for _, x := range set {
			x := x
			if !c.Unit(func() string { return fmt.Sprintf("pairs starting with byte 0x%02x", x) }) {
				continue
			}
			for _, y := range set {
				for _, q := range quotes {
					for _, sx := range spellings(x, q) {
						for _, sy := range spellings(y, q) {
							c16Literal(c, sx+sy, q)
						}
					}
				}
			}
		}
	}
	// the lexer reads its source through a 4096-byte buffer: every escape kind at every source
	// offset around the first two buffer boundaries, shifted by blanks in front of the command
	// and by plain characters inside the literal
	if c.Level("buffer boundary") {
		bodies := []string{"\\x41", "\\x4", "\\xZZ", "\\x", "\\n", "\\\\", "\\'", "\\\"", "a\\x41b", "\\x41\\x42", "\\\\x41", "ab", "\\q"}
		for _, body := range bodies {
			body := body
			if !c.Unit(func() string { return "body " + strQuote(body) + " around offsets 4096 and 8192" }) {
				continue
			}
			for _, base := range []int{4096, 8192} {
				for off := base - 16; off <= base+4; off++ {
					for _, q := range quotes {
						c16LiteralAt(c, body, q, off-len("find all ")-1) // the opening quote stands at source offset off-1
						c16LiteralAt(c, strings.Repeat("a", off-len("find all ")-1)+body, q, 0)
					}
				}
			}
		}
	}
	// what may follow `\x`: signs, an upper-case X, a digit (every body of <= 5 chars over 7 symbols)
	if c.Level("bodies2:len<=5") {
		alpha2 := "\\xX+-4a"
		for l := 1; l <= 5; l++ {
			var gen func(cur []byte)
			gen = func(cur []byte) {
				if len(cur) == l {
					body := string(cur)
					if c.Unit(func() string { return "body " + strQuote(body) }) {
						for _, q := range quotes {
							c16Literal(c, body, q)
						}
					}
					return
				}
				for i := 0; i < len(alpha2); i++ {
					gen(append(cur, alpha2[i]))
				}
			}
			gen(nil)
		}
	}
	maxLen := c.Pick(6, 7)
	alpha := "\\x0aG'\""
	for l := 1; l <= maxLen; l++ {
		if !c.Level(fmt.Sprintf("bodies:len=%d", l)) {
			return
		}
		var gen func(cur []byte)
		gen = func(cur []byte) {
			if len(cur) == l {
				body := string(cur)
				if c.Unit(func() string { return "body " + strQuote(body) }) {
					for _, q := range quotes {
						c16Literal(c, body, q)
					}
				}
				return
			}
			for i := 0; i < len(alpha); i++ {
				gen(append(cur, alpha[i]))
			}
		}
		gen(nil)
	}
}
