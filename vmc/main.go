package main

import (
	"encoding/json"
	"fmt"
	"os"
	"sort"
)

func main() {
	if len(os.Args) < 2 {
		usage()
	}
	switch os.Args[1] {
	case "check":
		if len(os.Args) < 3 {
			usage()
		}
		checkMain(os.Args[2:])
	case "worker":
		workerMain(os.Args[2:])
	case "replay":
		if len(os.Args) < 3 {
			usage()
		}
		replayMain(os.Args[2])
	case "list":
		var ids []string
		for id := range checks {
			ids = append(ids, id)
		}
		sort.Strings(ids)
		for _, id := range ids {
			fmt.Println(id, checks[id].Level)
		}
	default:
		if f, ok := extraCmds[os.Args[1]]; ok {
			f(os.Args[2:])
			return
		}
		usage()
	}
}

var extraCmds = map[string]func([]string){}

func usage() {
	fmt.Fprintln(os.Stderr, "usage: vmc check <id> [--tier quick|thorough] | vmc replay <file> | vmc list")
	os.Exit(2)
}

func replayMain(path string) {
	b, err := os.ReadFile(path)
	if err != nil {
		fmt.Fprintln(os.Stderr, err)
		os.Exit(2)
	}
	var rec map[string]any
	if err := json.Unmarshal(b, &rec); err != nil {
		fmt.Fprintln(os.Stderr, err)
		os.Exit(2)
	}
	id, _ := rec["check"].(string)
	ck := checks[id]
	if ck == nil || ck.Replay == nil {
		genericReplay(rec)
		return
	}
	ck.Replay(rec)
}

func osExit(code int) { os.Exit(code) }
