package main

import (
	"fmt"
	"regexp"
	"strings"
)

func min(a, b int) int {
	if a < b {
		return a
	}
	return b
}

// semUnit: one program against all texts, engine vs reference semantics R.
// heads: command heads to try ("find all", "replace all"); replace commands get
// ` with 'x'` appended and must report the same spans.
func semUnit(c *Ctx, prop string, p *Prog, txts []string, withVars bool, alsoReplace bool) {
	kinds := []string{"find"}
	if alsoReplace {
		kinds = append(kinds, "replace")
	}
	for _, kind := range kinds {
		src := p.Source("find all")
		if kind == "replace" {
			src = p.Source("replace all") + " with 'x'"
		}
		v, err, pi := compileSafe(src)
		if pi != nil {
			c.Violation("COMPILE-PANIC "+pi.Site, fmt.Sprintf("Compile(%q) panics: %s", src, pi.Msg),
				map[string]any{"kind": "compile", "src": src})
			continue
		}
		if err != nil {
			c.Violation("COMPILE-REJECT "+firstLine(err.Error())+" "+classKey(p), fmt.Sprintf("valid program rejected: %q: %s", src, firstLine(err.Error())),
				map[string]any{"kind": "compile", "src": src, "want": "accepted"})
			continue
		}
		var arb *goTermRx
		if kind == "find" && !strings.Contains(strings.Join(txts[:min(len(txts), 200)], ""), "\r") {
			if rx, ok := progRegex(p); ok {
				arb = &goTermRx{src: rx, byPos: map[int]*regexp.Regexp{}}
			}
		}
		for _, t := range txts {
			c.Eval(1)
			want, r := refScan(p, t, Variants{})
			if r.blown {
				c.Count("reference_too_expensive_skipped", 1)
				continue
			}
			if arb != nil && !arb.bad && !strings.Contains(t, "\r") && isASCII(t) { // Go's regexp works on characters, the engine and R on bytes: they are comparable on ASCII texts only
				// the reference matcher itself is validated against Go's regexp on the regular subset
				if gw, ok := arb.scan(t); ok {
					if !spansEqual(gw, want, withVars) {
						c.Count("ORACLE-DISAGREEMENT", 1)
						c.Note(fmt.Sprintf("ORACLE-DISAGREEMENT %q (regex %s) on %q: R %s, Go regexp %s", src, arb.src, t, fmtSpans(want, withVars), fmtSpans(gw, withVars)))
						continue
					}
					c.Count("model_validated_cases", 1)
				}
			}
			if len(want) > 0 {
				c.Nontrivial(1)
			}
			stepCount, stepBudget = 0, semStepBudget
			ms, pi := runSafe(v, t)
			stepBudget = 0
			c.Max("vm_steps_per_run", stepCount)
			if pi != nil {
				c.Violation("RUN-PANIC "+pi.Site, fmt.Sprintf("%q on %q panics: %s", src, t, pi.Msg),
					map[string]any{"kind": "spans", "src": src, "text": t, "want": fmtSpans(want, withVars), "vars": withVars})
				if pi.Site == "STEP-BUDGET" {
					c.Expensive()
					return
				}
				continue
			}
			got := spansOf(ms)
			c.Outcome(fmtSpans(got, withVars))
			if len(got) >= 2 && len(t) >= 4 {
				c.Sample(map[string]any{"program": src, "text": t, "engine": fmtSpans(got, withVars), "reference": fmtSpans(want, withVars)})
			}
			if spansEqual(got, want, withVars) {
				continue
			}
			// confirm determinism before reporting
			stable := true
			for i := 0; i < 4; i++ {
				ms2, pi2 := runSafe(v, t)
				if pi2 != nil || !spansEqual(spansOf(ms2), got, true) {
					stable = false
				}
			}
			k := "SPANS"
			if spansEqual(got, want, false) {
				k = "VARS"
			}
			if !stable {
				k = "NONDETERMINISTIC"
			}
			c.Violation(k+" "+kind+" "+classKey(p), fmt.Sprintf("%q on %q: got %s want %s", src, t, fmtSpans(got, withVars), fmtSpans(want, withVars)),
				map[string]any{"kind": "spans", "src": src, "text": t, "want": fmtSpans(want, withVars), "vars": withVars})
		}
	}
}

// semStepBudget bounds one Run inside the semantic checks (the largest legitimate
// count of their scopes is reported as maxima.vm_steps_per_run and is far below).
const semStepBudget = 3_000_000

func firstLine(s string) string {
	if i := strings.IndexByte(s, '\n'); i >= 0 {
		return s[:i]
	}
	return s
}

func progDesc(p *Prog) string { return p.Source("find all") }

func runGram(c *Ctx, prop, name string, g *Gram, maxN int, txts []string, withVars, needCap bool, replaceUpTo int) {
	runGramFrom(c, prop, name, g, 1, maxN, txts, withVars, needCap, replaceUpTo)
}

func runGramFrom(c *Ctx, prop, name string, g *Gram, minN, maxN int, txts []string, withVars, needCap bool, replaceUpTo int) {
	for n := minN; n <= maxN; n++ {
		if !c.Level(fmt.Sprintf("%s:n=%d", name, n)) {
			return
		}
		for _, raw := range g.Seqs(n) {
			body := raw
			if g.Cap || g.Refs > 0 {
				body = instantiate(raw, needCap)
				if body == nil || capUnderMinLoop(body, false) {
					continue
				}
			}
			p := &Prog{Body: body}
			if !c.Unit(func() string { return progDesc(p) }) {
				continue
			}
			c.Count("programs", 1)
			semUnit(c, prop, p, txts, withVars, n <= replaceUpTo)
		}
	}
}

func init() {
	register(&Check{
		ID:    "C01",
		Level: "exploration",
		Rule: "every program of <= n nodes of each driver grammar (D1 control, D1r reduced/deeper, D2 primitives, D3 anchors, D5 naming incl. recursion and predicates, D7 nullable loop bodies, D7n the same with one or two loops named) x every text over the driver alphabet up to its length bound; " +
			"engine spans compared with the reference backtracking matcher R; on the regular subset (no back-references, recursion, predicates, negated or word anchors, nullable loop bodies) R itself is compared on every case with Go's regexp applied through the documented Regex-to-Vore table, a disagreement ending the run as ORACLE-DISAGREEMENT (counters.model_validated_cases); non-trivial = (program,text) pairs (each evaluated once, hence distinct) for which R reports at least one match",
		Assume: []string{"reference matcher R (vmc/ref.go) encodes the documented semantics", "inputs are ASCII", "loop-id collisions of rand.Int63 ignored (2^-63)"},
		Budget: map[string]int{"quick": 120, "thorough": 1500},
		Run:    runC01,
	})
}

func runC01(c *Ctx) {
	installStepHook()
	defer flushInstKinds(c)
	// D1 control
	runGram(c, "C01", "D1", gramD1(), 4, texts("ab", 5), false, false, 3)
	if !c.Quick() {
		// 5 nodes: texts up to length 4 (nested unbounded loops backtrack exponentially in the text length)
		runGramFrom(c, "C01", "D1", gramD1(), 5, 5, texts("ab", 4), false, false, 0)
	}
	// D2 primitives: singles, under one loop, pairs
	txt2 := texts(alphaD2, 3)
	at := atomsD2()
	if c.Level("D2:singles+loops") {
		for _, a := range at {
			p := &Prog{Body: []*T{a}}
			if c.Unit(func() string { return progDesc(p) }) {
				c.Count("programs", 1)
				semUnit(c, "C01", p, txt2, false, true)
			}
			for _, lk := range allLoopKinds {
				p := &Prog{Body: []*T{loop(lk.Min, lk.Max, lk.Fewest, a)}}
				if c.Unit(func() string { return progDesc(p) }) {
					c.Count("programs", 1)
					semUnit(c, "C01", p, txt2, false, false)
				}
			}
		}
	}
	if c.Level("D2:pairs") {
		for _, a := range at {
			for _, b := range at {
				p := &Prog{Body: []*T{a, b}}
				if c.Unit(func() string { return progDesc(p) }) {
					c.Count("programs", 1)
					semUnit(c, "C01", p, txt2, false, false)
				}
			}
		}
	}
	if !c.Quick() && c.Level("D2:loop+atom") {
		for _, a := range at {
			for _, lk := range reducedLoopKinds {
				for _, b := range at {
					p := &Prog{Body: []*T{loop(lk.Min, lk.Max, lk.Fewest, a), b}}
					if c.Unit(func() string { return progDesc(p) }) {
						c.Count("programs", 1)
						semUnit(c, "C01", p, txt2, false, false)
					}
				}
			}
		}
	}
	// D3 anchors
	runGram(c, "C01", "D3", gramD3(), c.Pick(2, 3), textsD3(c.Pick(4, 5)), false, false, 1)
	// D5 naming
	runD5(c, "C01", c.Pick(2, 3), func(np NamedProg, txts []string) {
		semUnit(c, "C01", np.P, txts, false, false)
	})
	// amount clauses on self-overlapping bodies: a match that `skip` passes over is consumed whole (the
	// scan resumes at its end), `take`/`top`/`last` cut the same sequence
	if c.Level("amounts:n<=2") {
		ta := texts("ab", 5)
		for n := 1; n <= 2; n++ {
			for _, body := range gramD1().Seqs(n) {
				p := &Prog{Body: body}
				if !c.Unit(func() string { return "amounts: " + progDesc(p) }) {
					continue
				}
				for _, hd := range []struct {
					head   string
					lo, hi int // window of the `find all` sequence; hi < 0 = to the end; lo < 0 = last -lo
				}{{"find skip 1", 1, -1}, {"find skip 2 take 1", 2, 3}, {"find top 2", 0, 2}, {"find last 1", -1, -1}} {
					src := p.Source(hd.head)
					v, err, pi := compileSafe(src)
					if err != nil || pi != nil {
						c.Violation("COMPILE-REJECT amounts", fmt.Sprintf("%q rejected: %v %v", src, err, pi), map[string]any{"kind": "compile", "src": src, "want": "accepted"})
						continue
					}
					for _, t := range ta {
						c.Eval(1)
						all, r := refScan(p, t, Variants{})
						if r.blown {
							continue
						}
						lo, hi := hd.lo, hd.hi
						if lo < 0 {
							lo = len(all) + lo
						}
						if lo < 0 {
							lo = 0
						}
						if lo > len(all) {
							lo = len(all)
						}
						if hi < 0 || hi > len(all) {
							hi = len(all)
						}
						if hi < lo {
							hi = lo
						}
						want := all[lo:hi]
						if len(want) > 0 {
							c.Nontrivial(1)
						}
						stepCount, stepBudget = 0, semStepBudget
						ms, pi := runSafe(v, t)
						stepBudget = 0
						if pi != nil {
							c.Violation("RUN-PANIC amounts "+pi.Site, fmt.Sprintf("%q on %q panics: %s", src, t, pi.Msg), map[string]any{"kind": "spans", "src": src, "text": t, "want": fmtSpans(want, false)})
							continue
						}
						if got := spansOf(ms); !spansEqual(got, want, false) {
							c.Violation("SPANS amounts "+strings.Fields(hd.head)[1], fmt.Sprintf("%q on %q: got %s want %s (the window of the reference sequence %s)", src, t, fmtSpans(got, false), fmtSpans(want, false), fmtSpans(all, false)),
								map[string]any{"kind": "spans", "src": src, "text": t, "want": fmtSpans(want, false)})
						}
					}
				}
			}
		}
	}
	// D4 captures and back-references (spans only here; C02 compares the bindings): a back-reference
	// that sees a binding of an abandoned path matches where it must fail
	runGram(c, "C01", "D4", gramD4(true), c.Pick(4, 5), texts("ab", 4), false, true, 0)
	// D7 nullable bodies (the termination driver of C10, here with the semantic oracle)
	runGram(c, "C01", "D7", gramD7(), c.Pick(3, 4), texts("a\n", 4), false, false, 0)
	if c.Level("D7:fixed") {
		for _, p := range d7Fixed() {
			p := p
			if c.Unit(func() string { return progDesc(p) }) {
				c.Count("programs", 1)
				semUnit(c, "C01", p, texts("a\n", 4), false, false)
			}
		}
	}
	// D7n: naming a loop must not change what it matches (named loops are not unrolled by the
	// generator: their mandatory iterations run under the zero-length-iteration guard)
	g7n := &Gram{Atoms: []*T{lit("a"), {K: SEQ}, anchor("line start", false), {K: IN, Neg: true, Items: []Item{{K: 0, S: "a"}}}}, Or: true,
		Loops: []LoopKind{{0, 1, false}, {0, -1, false}, {0, -1, true}, {1, -1, false}, {2, -1, false}, {1, 2, false}, {1, 2, true}}}
	for n := 2; n <= c.Pick(4, 5); n++ {
		if !c.Level("D7n:n=" + itoa(n)) {
			return
		}
		for _, raw := range g7n.Seqs(n) {
			for _, nb := range nameLoopsOpt(raw, false) {
				p := &Prog{Body: nb}
				if c.Unit(func() string { return progDesc(p) }) {
					c.Count("programs", 1)
					c.Count("named_loop_programs", 1)
					semUnit(c, "C01", p, texts("a\n", 4), false, false)
				}
			}
		}
	}
	if c.Level("D7r:recursion") {
		for _, p := range d7rPrograms() {
			p := p
			if c.Unit(func() string { return progDesc(p) }) {
				c.Count("programs", 1)
				semUnit(c, "C01", p, texts(alphaD2, 3), false, false)
			}
		}
	}
	// D1r deeper (thorough)
	if !c.Quick() {
		runGram(c, "C01", "D1r", gramD1r(), 6, texts("ab", 4), false, false, 0)
	}
}

// runD5 enumerates the naming driver: bodies x contexts x variants, then extras.
func runD5(c *Ctx, prop string, maxBody int, f func(np NamedProg, txts []string)) {
	txts := texts("abd", 5)
	g := gramD5()
	for n := 1; n <= maxBody; n++ {
		if !c.Level(fmt.Sprintf("D5:body=%d", n)) {
			return
		}
		for _, body := range g.Seqs(n) {
			for _, ctx := range d5Contexts {
				for _, variant := range d5Variants {
					np := NamedProg{Variant: variant, Context: ctx, P: d5Build(variant, ctx, body)}
					if c.Unit(func() string { return variant + "/" + ctx + ": " + progDesc(np.P) }) {
						c.Count("programs", 1)
						f(np, txts)
					}
				}
			}
		}
	}
	if c.Level("D5:extras") {
		for _, np := range d5Extras() {
			np := np
			if c.Unit(func() string { return np.Variant + "/" + np.Context + ": " + progDesc(np.P) }) {
				c.Count("programs", 1)
				f(np, txts)
			}
		}
	}
}

// genericReplay re-executes a replay record without the explorer.
func genericReplay(rec map[string]any) {
	kind, _ := rec["kind"].(string)
	src, _ := rec["src"].(string)
	fmt.Printf("replay kind=%s\nsource: %s\n", kind, src)
	switch kind {
	case "spans":
		text, _ := rec["text"].(string)
		want, _ := rec["want"].(string)
		withVars, _ := rec["vars"].(bool)
		v, err, pi := compileSafe(src)
		if pi != nil || err != nil {
			fmt.Println("compile failed:", err, pi)
			osExit(1)
		}
		ms, pi := runSafe(v, text)
		if pi != nil {
			fmt.Printf("Run(%q) panics: %s at %s\n", text, pi.Msg, pi.Site)
			osExit(1)
		}
		got := fmtSpans(spansOf(ms), withVars)
		fmt.Printf("text: %q\ngot:  %s\nwant: %s\n", text, got, want)
		if got != want {
			osExit(1)
		}
		fmt.Println("replay passes (no violation)")
	case "compile":
		v, err, pi := compileSafe(src)
		fmt.Printf("Compile -> vore=%v err=%v panic=%v\n", v != nil, err, pi)
		if pi != nil || (rec["want"] == "accepted" && err != nil) {
			osExit(1)
		}
	case "shape":
		text, _ := rec["text"].(string)
		first, _ := rec["first"].(float64)
		v, err, pi := compileSafe(src)
		if pi != nil || err != nil {
			fmt.Println("compile failed:", err, pi)
			osExit(1)
		}
		ms, pi := runSafe(v, text)
		fmt.Printf("text: %q\nmatches: %v\npanic: %v\n", text, matchRecords(ms), pi)
		if msg := shapeViolation(text, ms, int(first)); msg != "" || pi != nil {
			fmt.Println("shape violation:", msg)
			osExit(1)
		}
		fmt.Println("replay passes (no violation)")
	case "window":
		if _, isC07 := rec["ops"]; isC07 {
			fmt.Printf("buffered reader: file of %v bytes, operations %v\n%v\n(re-run `run.sh C07 quick` to re-execute the window machine)\n", rec["size"], rec["ops"], rec["desc"])
			return
		}
		text, _ := rec["text"].(string)
		all, _ := rec["all"].(string)
		lo, _ := rec["lo"].(float64)
		hi, _ := rec["hi"].(float64)
		va, e1, _ := compileSafe(all)
		v, e2, _ := compileSafe(src)
		if e1 != nil || e2 != nil || va == nil || v == nil {
			fmt.Println("compile failed:", e1, e2)
			osExit(1)
		}
		ma, _ := runSafe(va, text)
		ms, pi := runSafe(v, text)
		A := matchRecords(ma)
		got := matchRecords(ms)
		fmt.Printf("text: %q\nA = %q gives %v\n%q gives %v (panic %v)\n", text, all, A, src, got, pi)
		if int(hi) > len(A) || strings.Join(got, "|") != strings.Join(A[int(lo):int(hi)], "|") {
			fmt.Printf("expected A[%d:%d]\n", int(lo), int(hi))
			osExit(1)
		}
		fmt.Println("replay passes (no violation)")
	case "steps":
		text, _ := rec["text"].(string)
		budget, _ := rec["budget"].(float64)
		installStepHook()
		v, err, pi := compileSafe(src)
		if pi != nil || err != nil {
			fmt.Println("compile failed:", err, pi)
			osExit(1)
		}
		stepCount, stepBudget = 0, int64(budget)
		_, pi = runSafe(v, text)
		fmt.Printf("text: %q\nVM instructions executed: %d (budget %d) panic=%v\n", text, stepCount, int64(budget), pi)
		if pi != nil {
			osExit(1)
		}
		fmt.Println("replay passes (terminates within the budget)")
	case "layout":
		base, _ := rec["base"].(string)
		b, p1 := c15Eval(base)
		v, p2 := c15Eval(src)
		fmt.Printf("base:    %q accepted=%v panic=%v\nvariant: %q accepted=%v panic=%v\n", base, b.accepted, p1, src, v.accepted, p2)
		if p1 != nil || p2 != nil || b.accepted != v.accepted || strings.Join(b.results, "|") != strings.Join(v.results, "|") {
			osExit(1)
		}
		fmt.Println("acceptance and results agree (trees are compared by the check itself)")
	case "expr":
		// C11: the expression is observed through a transform, as the check does
		expr, _ := rec["expr"].(string)
		text, _ := rec["text"].(string)
		want, hasWant := rec["want"].(string)
		if src == "" && expr != "" {
			if want == "T" || want == "F" {
				src = "set f to transform if " + expr + " then return 'T' end return 'F' end\nreplace all at least 1 any with f"
			} else {
				src = "set f to transform return " + expr + " end\nreplace all at least 1 any with f"
			}
			fmt.Printf("source (rebuilt): %s\n", src)
		}
		v, err, pi := compileSafe(src)
		fmt.Printf("Compile -> err=%v panic=%v\n", err, pi)
		if v == nil {
			osExit(1)
		}
		ms, pi := runSafe(v, text)
		if pi != nil || len(ms) != 1 {
			fmt.Printf("Run(%q): panic %v, %d matches\n", text, pi, len(ms))
			osExit(1)
		}
		got := ms[0].Replacement.GetValueOrDefault("")
		fmt.Printf("text: %q\ngot:  %q\nwant: %q\n", text, got, want)
		if hasWant && got != want {
			osExit(1)
		}
		fmt.Println("replay passes (no violation)")
	case "json", "replace", "records", "literal":
		text, _ := rec["text"].(string)
		v, err, pi := compileSafe(src)
		fmt.Printf("Compile -> err=%v panic=%v\n", err, pi)
		if v != nil {
			ms, pi := runSafe(v, text)
			fmt.Printf("text: %q\nmatches: %v\npanic: %v\n", text, matchRecords(ms), pi)
			if kind == "json" {
				fmt.Println("Json():", guard(func() { fmt.Println(ms.Json()) }))
			}
		}
		fmt.Printf("reported: %v\n", rec["desc"])
	default:
		fmt.Printf("record: %v\n(no automatic replay for this kind: re-run the check; the record above holds the exact inputs)\n", rec["desc"])
	}
}
