package main

// Go regexp as arbiter for the reference matcher on the regular subset of the
// term algebra, through the documented Regex -> Vore table (RegexComparison.md)
// read right to left.

import (
	"fmt"
	"regexp"
	"strings"
)

func rxClass(name string, neg bool) (string, bool) {
	set := ""
	switch name {
	case "any":
		if neg {
			return `[^\x{0}-\x{10FFFF}]`, true
		}
		return `(?s:.)`, true
	case "digit":
		set = "0-9"
	case "upper":
		set = "A-Z"
	case "lower":
		set = "a-z"
	case "letter":
		set = "a-zA-Z"
	case "whitespace":
		set = ` \t\n\r`
	default:
		return "", false
	}
	if neg {
		return "[^" + set + "]", true
	}
	return "[" + set + "]", true
}

func rxByte(c byte) string { return fmt.Sprintf(`\x{%02x}`, c) }

type rxCtx struct {
	p     *Prog
	subs  map[string][]*T
	depth int
}

func (x *rxCtx) seq(ts []*T) (string, bool) {
	var b strings.Builder
	for _, t := range ts {
		s, ok := x.term(t)
		if !ok {
			return "", false
		}
		b.WriteString(s)
	}
	return b.String(), true
}

func (x *rxCtx) term(t *T) (string, bool) {
	switch t.K {
	case LIT:
		if t.S == "" {
			return "", false
		}
		return regexp.QuoteMeta(t.S), true
	case CASELESS:
		if t.S == "" {
			return "", false
		}
		return "(?i:" + regexp.QuoteMeta(t.S) + ")", true
	case NOTLIT:
		if len(t.S) != 1 {
			return "", false
		}
		return "[^" + rxByte(t.S[0]) + "]", true
	case CLASS:
		return rxClass(t.S, t.Neg)
	case ANCHOR:
		if t.Neg {
			return "", false
		}
		switch t.S {
		case "file start":
			return `\A`, true
		case "file end":
			return `\z`, true
		case "line start":
			return `(?m:^)`, true
		case "line end":
			return `(?m:$)`, true
		}
		return "", false // \b is not start/end specific
	case IN:
		if t.Neg {
			var b strings.Builder
			b.WriteString("[^")
			for _, it := range t.Items {
				switch it.K {
				case 0:
					if len(it.S) != 1 {
						return "", false
					}
					b.WriteString(rxByte(it.S[0]))
				case 1:
					if len(it.S) != 1 || len(it.To) != 1 {
						return "", false
					}
					b.WriteString(rxByte(it.S[0]) + "-" + rxByte(it.To[0]))
				case 2:
					c, ok := rxClass(it.S, false)
					if !ok || it.S == "any" {
						return "", false
					}
					b.WriteString(c[1 : len(c)-1])
				default:
					return "", false
				}
			}
			b.WriteString("]")
			return b.String(), true
		}
		var alts []string
		for _, it := range t.Items {
			switch it.K {
			case 0:
				if it.S == "" {
					return "", false
				}
				alts = append(alts, regexp.QuoteMeta(it.S))
			case 1:
				if len(it.S) != 1 || len(it.To) != 1 {
					return "", false
				}
				alts = append(alts, "["+rxByte(it.S[0])+"-"+rxByte(it.To[0])+"]")
			case 2:
				c, ok := rxClass(it.S, false)
				if !ok {
					return "", false
				}
				alts = append(alts, c)
			case 3:
				if it.S == "" {
					return "", false
				}
				alts = append(alts, "(?i:"+regexp.QuoteMeta(it.S)+")")
			}
		}
		return "(?:" + strings.Join(alts, "|") + ")", true
	case SEQ:
		s, ok := x.seq(t.Kids)
		return "(?:" + s + ")", ok
	case OR:
		l, ok1 := x.term(t.Kids[0])
		r, ok2 := x.term(t.Kids[1])
		return "(?:" + l + "|" + r + ")", ok1 && ok2
	case LOOP:
		if nullableT(t.Kids[0]) || (t.Max != -1 && t.Max < t.Min) || t.S != "" {
			return "", false
		}
		b, ok := x.term(t.Kids[0])
		if !ok {
			return "", false
		}
		q := ""
		switch {
		case t.Max == -1:
			q = fmt.Sprintf("{%d,}", t.Min)
		default:
			q = fmt.Sprintf("{%d,%d}", t.Min, t.Max)
		}
		if t.Fewest {
			q += "?"
		}
		return "(?:" + b + ")" + q, true
	case CAP:
		b, ok := x.term(t.Kids[0])
		return "(?P<" + t.S + ">" + b + ")", ok
	case SUBDEF:
		if x.subs == nil {
			x.subs = map[string][]*T{}
		}
		x.subs[t.S] = t.Kids
		x.depth++
		defer func() { x.depth-- }()
		if x.depth > 6 {
			return "", false // recursion
		}
		s, ok := x.seq(t.Kids)
		return "(?:" + s + ")", ok
	case CALL, GLOBAL:
		x.depth++
		defer func() { x.depth-- }()
		if x.depth > 6 {
			return "", false
		}
		if body, ok := x.subs[t.S]; ok && t.K == CALL {
			s, ok := x.seq(body)
			return "(?:" + s + ")", ok
		}
		for _, d := range x.p.Defs {
			if d.Name == t.S {
				if d.Pred != "" {
					return "", false
				}
				s, ok := x.seq(d.Body)
				return "(?:" + s + ")", ok
			}
		}
		return "", false
	}
	return "", false
}

// progRegex renders a program of the regular subset as a Go regular expression.
func progRegex(p *Prog) (string, bool) {
	if p.Pre != nil {
		return "", false
	}
	x := &rxCtx{p: p}
	return x.seq(p.Body)
}

// goScanTerm: the scan loop of C01 with Go's regexp finding the first match at each position.
type goTermRx struct {
	src   string
	byPos map[int]*regexp.Regexp
	bad   bool
}

func (g *goTermRx) scan(t string) ([]Span, bool) {
	var out []Span
	p := 0
	for p < len(t) {
		re, ok := g.byPos[p]
		if !ok {
			var err error
			re, err = regexp.Compile(fmt.Sprintf(`\A(?s:.{%d})(%s)`, p, g.src))
			if err != nil {
				g.bad = true
				return nil, false
			}
			g.byPos[p] = re
		}
		m := re.FindStringSubmatchIndex(t)
		if m != nil && m[3] > m[2] {
			vars := map[string]string{}
			for i, name := range re.SubexpNames() {
				if i >= 2 && name != "" && m[2*i] >= 0 {
					vars[name] = t[m[2*i]:m[2*i+1]]
				}
			}
			out = append(out, Span{m[2], m[3], fmtVars(vars)})
			p = m[3]
		} else {
			p++
		}
	}
	return out, true
}
