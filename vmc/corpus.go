package main

import (
	"go/ast"
	"go/parser"
	"go/token"
	"os"
	"path/filepath"
	"sort"
	"strconv"
	"strings"
)

// corpusPrograms: valid vore programs from the repository (docs/examples and the
// sources passed to Compile in the test files) plus generated ones.
func corpusPrograms() []string {
	seen := map[string]bool{}
	var out []string
	add := func(s string) {
		s = strings.TrimSpace(s)
		if s != "" && !seen[s] && len(s) < 1500 {
			seen[s] = true
			out = append(out, s)
		}
	}
	files, _ := filepath.Glob("/repo/docs/examples/*.vore")
	sort.Strings(files)
	for _, f := range files {
		if b, err := os.ReadFile(f); err == nil {
			add(string(b))
		}
	}
	tests, _ := filepath.Glob("/repo/libvore/*_test.go")
	sort.Strings(tests)
	fset := token.NewFileSet()
	for _, f := range tests {
		file, err := parser.ParseFile(fset, f, nil, 0)
		if err != nil {
			continue
		}
		ast.Inspect(file, func(n ast.Node) bool {
			call, ok := n.(*ast.CallExpr)
			if !ok || len(call.Args) == 0 {
				return true
			}
			name := ""
			switch fn := call.Fun.(type) {
			case *ast.Ident:
				name = fn.Name
			case *ast.SelectorExpr:
				name = fn.Sel.Name
			}
			if name != "Compile" {
				return true
			}
			if lit, ok := call.Args[0].(*ast.BasicLit); ok && lit.Kind == token.STRING {
				if s, err := strconv.Unquote(lit.Value); err == nil {
					add(s)
				}
			}
			return true
		})
	}
	for _, s := range generatedPrograms() {
		add(s)
	}
	return out
}

// generatedPrograms: one valid program per grammar production family.
func generatedPrograms() []string {
	var out []string
	for _, b := range d6Fixed {
		out = append(out, "find all "+b)
	}
	for _, b := range c04Special {
		out = append(out, "replace skip 1 take 2 "+b+" with 'x' value")
	}
	out = append(out, c13Sources...)
	for _, np := range d5Extras() {
		out = append(out, np.P.Source("find all"))
	}
	out = append(out, "find all {} = s s 'a'", "find all () 'a' ()", "find all {()} = e 'a' e",
		"find all", "replace all 'a' with", "find all 'a' find all", "set p to pattern\nfind all p")
	out = append(out,
		c05Transforms+"replace all (any = x) maybe (any = y) with t1 '-' t2 x t3 nope t4",
		"find top 3 between 1 and 2 in 'a' to 'c', digit, \"x\", caseless 'q' fewest named n",
		"find last 2 at most 3 not in 'a', 'b' to 'd', whitespace",
		"find take 1 exactly 2 (upper or lower or not letter) = c c",
		"set f to function begin set i to 0 set s to '' loop if i >= matchLength then break end set s to s + head match set i to i + 1 continue end return s + i * 2 - 1 / 1 % 5 end replace all at least 1 letter with f",
		"set p to pattern at least 1 digit begin if match % 2 == 0 and not (match < 10 or match > 90) then return true else return false end end find all p '!' p",
		"set m to matches find all 'a'\nfind all 'b'",
		"set t to transform debug 'x' return tail match + 'y' <= 'z' == true != false end\nreplace all 'a' with t",
		"find all line start whole word word end line end file start file end word start whole line whole file",
		"find all not line start not word end not 'x' not any not digit not in upper, lower",
		// names made of non-ASCII letters
		"find all (digit) = \xc3\xb1 (\xc3\xb1) maybe \xc3\xb1", "set \xc3\xa9lan to pattern 'a' or 'b'\nfind all \xc3\xa9lan 'b' = a\xc3\xb1o a\xc3\xb1o",
		// sources whose last command is a definition: the closing `end` (or the pattern body) is the last token
		"find all 'a'\nset t to transform return match end", "find all 'a'\nset p to pattern 'b' begin return true end",
		"set f to function if true then return 1 else return 2 end end", "find all 'a' set q to pattern 'b' or 'c'", "replace all 'a' with 'b' set m to matches find all 'c'",
	)
	return out
}

// vtokens: a tokenizer for generating variants; deliberately independent of the
// lexer under test (strings with escapes, comments, regex literals, words, numbers, symbols).
func vtokens(src string) []string {
	var out []string
	i := 0
	for i < len(src) {
		c := src[i]
		j := i + 1
		switch {
		case c == ' ' || c == '\t' || c == '\n' || c == '\r':
			for j < len(src) && (src[j] == ' ' || src[j] == '\t' || src[j] == '\n' || src[j] == '\r') {
				j++
			}
			i = j
			continue
		case c == '\'' || c == '"':
			for j < len(src) && src[j] != c {
				if src[j] == '\\' {
					j++
				}
				j++
			}
			j++
		case c == '-' && strings.HasPrefix(src[i:], "--("):
			if k := strings.Index(src[i:], ")--"); k >= 0 {
				j = i + k + 3
			} else {
				j = len(src)
			}
		case c == '-' && strings.HasPrefix(src[i:], "--"):
			for j < len(src) && src[j] != '\n' {
				j++
			}
		case c == '@' && j < len(src) && src[j] == '/':
			j++
			for j < len(src) && src[j] != '/' {
				j++
			}
			j++
		case c >= 'a' && c <= 'z' || c >= 'A' && c <= 'Z' || c >= '0' && c <= '9' || c >= 0x80:
			// a word: letters (any byte >= 0x80 belongs to a non-ASCII letter) and digits
			for j < len(src) && (src[j] >= 'a' && src[j] <= 'z' || src[j] >= 'A' && src[j] <= 'Z' || src[j] >= '0' && src[j] <= '9' || src[j] >= 0x80) {
				j++
			}
		case (c == '=' || c == '!' || c == '<' || c == '>' || c == ':') && j < len(src) && src[j] == '=':
			j++
		}
		if j > len(src) {
			j = len(src)
		}
		out = append(out, src[i:j])
		i = j
	}
	return out
}
