package main

// Thin binding to the code under test: Compile / Run / RunFiles with panic
// capture and extraction of the observable result.

import (
	"fmt"
	"regexp"
	"runtime"
	"sort"
	"strconv"
	"strings"

	"github.com/jmeaster30/vore/libvore"
	"github.com/jmeaster30/vore/libvore/engine"
)

func sortStrings(s []string) { sort.Strings(s) }

func strQuote(s string) string { return strconv.Quote(s) }

type PanicInfo struct {
	Msg  string
	Site string // innermost libvore frame: function:line
}

var frameRe = regexp.MustCompile(`(?m)^(github\.com/jmeaster30/vore/.+)\(.*\)\s*\n\s+(\S+):(\d+)`)

func panicSite() string {
	buf := make([]byte, 16384)
	n := runtime.Stack(buf, false)
	st := string(buf[:n])
	for _, m := range frameRe.FindAllStringSubmatch(st, -1) {
		fn := m[1]
		if strings.Contains(fn, "/vore/libvore") || strings.HasPrefix(fn, "github.com/jmeaster30/vore.") {
			file := m[2]
			if i := strings.LastIndex(file, "/"); i >= 0 {
				file = file[i+1:]
			}
			short := fn[strings.LastIndex(fn, "/")+1:]
			// drop the line number from the key: it moves with unrelated edits
			_ = file
			return short
		}
	}
	return "?"
}

// guard runs f and converts a panic into PanicInfo.
func guard(f func()) (pi *PanicInfo) {
	defer func() {
		if r := recover(); r != nil {
			if _, ok := r.(stepAbort); ok {
				pi = &PanicInfo{Msg: "step budget exceeded", Site: "STEP-BUDGET"}
				return
			}
			pi = &PanicInfo{Msg: fmt.Sprint(r), Site: panicSite()}
		}
	}()
	f()
	return nil
}

type stepAbort struct{}

func compileSafe(src string) (v *libvore.Vore, err error, pi *PanicInfo) {
	pi = guard(func() { v, err = libvore.Compile(src) })
	return
}

func runSafe(v *libvore.Vore, text string) (ms engine.Matches, pi *PanicInfo) {
	pi = guard(func() { ms = v.Run(text) })
	return
}

// stringVars flattens the string-valued variables of a match (nested maps from
// named loops are rendered with a path key).
func stringVars(m engine.Match) map[string]string {
	out := map[string]string{}
	g, _ := m.Variables.ToGo().(map[string]any)
	var walk func(prefix string, mm map[string]any)
	walk = func(prefix string, mm map[string]any) {
		for k, v := range mm {
			switch x := v.(type) {
			case string:
				out[prefix+k] = x
			case map[string]any:
				walk(prefix+k+"/", x)
			}
		}
	}
	walk("", g)
	return out
}

func spansOf(ms engine.Matches) []Span {
	var out []Span
	for _, m := range ms {
		out = append(out, Span{m.Offset.Start, m.Offset.End, fmtVars(stringVars(m))})
	}
	return out
}

func spansEqual(a, b []Span, withVars bool) bool {
	if len(a) != len(b) {
		return false
	}
	for i := range a {
		if a[i].S != b[i].S || a[i].E != b[i].E {
			return false
		}
		if withVars && a[i].Vars != b[i].Vars {
			return false
		}
	}
	return true
}

func fmtSpans(s []Span, withVars bool) string {
	var b strings.Builder
	b.WriteByte('[')
	for i, x := range s {
		if i > 0 {
			b.WriteByte(' ')
		}
		fmt.Fprintf(&b, "[%d,%d)", x.S, x.E)
		if withVars && x.Vars != "" {
			b.WriteString("{" + x.Vars + "}")
		}
	}
	b.WriteByte(']')
	return b.String()
}

func itoa(n int) string { return strconv.Itoa(n) }
