package main

// Supervisor / worker framework shared by every check.
//
// A check is a deterministic enumeration of "units" (one program with all its
// texts, one configuration, one history ...) grouped into "levels" (bound
// boundaries: node count 1,2,3..).  `vmc check <id>` is the supervisor: it
// shards the canonical unit order over worker subprocesses (unit index modulo
// shard count), merges their counters, confirms hangs/crashes by a solo re-run
// and writes the evidence file.  Workers run with GOMAXPROCS=1, an address
// space limit and a per-unit watchdog, because a broken lexer/VM can spin or
// allocate without bound and nothing in-process can stop that.

import (
	"bufio"
	"crypto/sha1"
	"encoding/hex"
	"encoding/json"
	"fmt"
	"hash/fnv"
	"io"
	"os"
	"os/exec"
	"path/filepath"
	"runtime"
	"runtime/debug"
	"sort"
	"strconv"
	"strings"
	"sync"
	"sync/atomic"
	"syscall"
	"time"
)

// verifRoot is /verif unless run.sh was started from a snapshot (vp run), which sets VERIF_ROOT.
var verifRoot = func() string {
	if r := os.Getenv("VERIF_ROOT"); r != "" {
		return r
	}
	return "/verif"
}()

// ---------------------------------------------------------------- check registry

type Check struct {
	ID        string
	Level     string // evidence level / manifest category
	Rule      string // how cases are enumerated and what makes one non-trivial
	Assume    []string
	Shards    int                   // 0 = min(16, NumCPU)
	UnitLimit time.Duration         // watchdog per unit (default 20s)
	Budget    map[string]int        // default budget seconds per tier
	Run       func(c *Ctx)          // the enumeration (executed in every worker)
	Replay    func(r map[string]any) // optional: re-execute a replay record, print, os.Exit(1) if it still fails
	Post      func(agg *Agg, cov map[string]any) // optional: supervisor-side post-processing of coverage
	Prepare   func() error                       // optional: supervisor-side preparation (e.g. build the CLI from /repo)
	WorkerBin string                             // optional: binary to run workers with (default: this binary)
}

var checks = map[string]*Check{}

func register(c *Check) { checks[c.ID] = c }

// ---------------------------------------------------------------- aggregate

type Viol struct {
	Class  string         `json:"class"`
	Desc   string         `json:"desc"`
	Replay map[string]any `json:"replay"`
	Count  int64          `json:"count"`
}

type Agg struct {
	Evals      int64              `json:"evals"`
	Nontrivial int64              `json:"nontrivial"`
	Units      int64              `json:"units"`
	Counters   map[string]int64   `json:"counters"`
	Maxes      map[string]int64   `json:"maxes"`
	Outcomes   map[string]bool    `json:"outcomes"` // hashed outcome keys (vacuity guard)
	Sets       map[string]map[string]bool `json:"sets"`
	Viols      map[string]*Viol   `json:"viols"` // by class: smallest first
	Known      map[string]*Viol   `json:"known"` // known findings hit, by finding id
	Samples    []any              `json:"samples"`
	Examples   []any              `json:"examples"` // explicit, structured samples (preferred in the evidence)
	Levels     []string           `json:"levels"` // levels completed by this worker
	Notes      []string           `json:"notes"`
}

func newAgg() *Agg {
	return &Agg{Counters: map[string]int64{}, Maxes: map[string]int64{}, Outcomes: map[string]bool{},
		Sets: map[string]map[string]bool{}, Viols: map[string]*Viol{}, Known: map[string]*Viol{}}
}

func (a *Agg) merge(b *Agg) {
	a.Evals += b.Evals
	a.Nontrivial += b.Nontrivial
	a.Units += b.Units
	for k, v := range b.Counters {
		a.Counters[k] += v
	}
	for k, v := range b.Maxes {
		if v > a.Maxes[k] {
			a.Maxes[k] = v
		}
	}
	for k := range b.Outcomes {
		if len(a.Outcomes) < 200000 {
			a.Outcomes[k] = true
		}
	}
	for s, m := range b.Sets {
		if a.Sets[s] == nil {
			a.Sets[s] = map[string]bool{}
		}
		for k := range m {
			a.Sets[s][k] = true
		}
	}
	mergeV := func(dst map[string]*Viol, src map[string]*Viol) {
		for k, v := range src {
			if o, ok := dst[k]; ok {
				o.Count += v.Count
				if len(v.Desc) < len(o.Desc) || (len(v.Desc) == len(o.Desc) && v.Desc < o.Desc) {
					o.Desc, o.Replay = v.Desc, v.Replay
				}
			} else {
				c := *v
				dst[k] = &c
			}
		}
	}
	mergeV(a.Viols, b.Viols)
	mergeV(a.Known, b.Known)
	for _, s := range b.Samples {
		if len(a.Samples) < 8 {
			a.Samples = append(a.Samples, s)
		}
	}
	for _, s := range b.Examples {
		if len(a.Examples) < 10 {
			a.Examples = append(a.Examples, s)
		}
	}
	a.Notes = append(a.Notes, b.Notes...)
}

// ---------------------------------------------------------------- worker context

type Ctx struct {
	Tier     string
	Seed     int64
	Shard    int
	NShards  int
	From     int64          // skip units with index < From (restart after a crash)
	Skip     map[int64]bool // units confirmed to hang/crash: never run again
	Only     int64          // >=0: run only this unit (solo confirmation)
	Deadline time.Time

	agg      *Agg
	out      *json.Encoder
	unit     int64 // next unit index
	lastEmit time.Time
	level    string
	stopped  bool
	expensive int
	nexamples int

	curUnit  atomic.Int64
	curStart atomic.Int64 // process CPU time (ns) when the unit started, +1; 0 = idle
	curWall  atomic.Int64 // wall clock (unix ns) when the unit started
	curDesc  atomic.Value
	limit    time.Duration
	progress *os.File
	mu       sync.Mutex
}

func (c *Ctx) Quick() bool { return c.Tier != "thorough" }

// Expensive counts one expensive violation (a hang / step-budget overrun); after
// three of them the worker stops enumerating (the run is then not exhaustive).
func (c *Ctx) Expensive() {
	c.expensive++
	if c.expensive >= 3 {
		c.stopped = true
		c.Note("stopped early after 3 non-termination violations in this shard")
	}
}

// Pick returns q for the quick tier and t for the thorough tier.
func (c *Ctx) Pick(q, t int) int {
	if c.Quick() {
		return q
	}
	return t
}

// Level marks a bound boundary. It returns false when the budget is used up:
// the check must then stop enumerating (everything below is complete).
func (c *Ctx) Level(name string) bool {
	if c.level != "" && !c.stopped {
		c.agg.Levels = append(c.agg.Levels, c.level)
	}
	c.level = ""
	if c.stopped {
		return false
	}
	if name == "" {
		return false // closing call: nothing left to enumerate
	}
	if c.Only < 0 && time.Now().After(c.Deadline) {
		c.stopped = true
		return false
	}
	c.level = name
	return true
}

// Unit claims the next unit index; it returns false if the unit belongs to
// another shard (or is skipped). desc is evaluated lazily only for own units.
func (c *Ctx) Unit(desc func() string) bool {
	idx := c.unit
	c.unit++
	if c.stopped {
		return false
	}
	if c.Only >= 0 {
		if idx != c.Only {
			return false
		}
	} else {
		if idx%int64(c.NShards) != int64(c.Shard) || idx < c.From || c.Skip[idx] {
			return false
		}
	}
	c.endUnit()
	d := desc()
	c.curDesc.Store(d)
	c.curUnit.Store(idx)
	c.curWall.Store(time.Now().UnixNano())
	c.curStart.Store(cpuNanos() + 1)
	if c.progress != nil {
		rec := fmt.Sprintf("%d\t%s", idx, d)
		if len(rec) > 4000 {
			rec = rec[:4000]
		}
		buf := make([]byte, 4096)
		copy(buf, rec)
		c.progress.WriteAt(buf, 0)
	}
	c.agg.Units++
	if len(c.agg.Samples) < 3 {
		c.agg.Samples = append(c.agg.Samples, d)
	}
	return true
}

// Sub records the case currently executing inside a unit (for hang/crash reports); the watchdog
// allows every case its own CPU-time limit.
func (c *Ctx) Sub(desc string) {
	c.curDesc.Store(desc)
	if c.curStart.Load() != 0 {
		c.curStart.Store(cpuNanos() + 1) // a new case has begun: the watchdog's clock restarts
	}
	if c.progress != nil {
		rec := fmt.Sprintf("%d\t%s", c.curUnit.Load(), desc)
		if len(rec) > 4000 {
			rec = rec[:4000]
		}
		buf := make([]byte, 4096)
		copy(buf, rec)
		c.progress.WriteAt(buf, 0)
	}
}

func (c *Ctx) endUnit() {
	if c.curStart.Load() != 0 {
		c.curStart.Store(0)
		if time.Since(c.lastEmit) > 700*time.Millisecond {
			c.emitDelta()
		}
	}
}

func (c *Ctx) emitDelta() {
	c.mu.Lock()
	defer c.mu.Unlock()
	c.out.Encode(map[string]any{"t": "delta", "upto": c.curUnit.Load(), "agg": c.agg})
	c.agg = newAgg()
	c.lastEmit = time.Now()
}

func (c *Ctx) Eval(n int64)       { c.agg.Evals += n }
func (c *Ctx) Nontrivial(n int64) { c.agg.Nontrivial += n }
func (c *Ctx) Count(k string, n int64) { c.agg.Counters[k] += n }
func (c *Ctx) Max(k string, v int64) {
	if v > c.agg.Maxes[k] {
		c.agg.Maxes[k] = v
	}
}
func (c *Ctx) Note(s string) { c.agg.Notes = append(c.agg.Notes, s) }
func (c *Ctx) Sample(s any) {
	if c.nexamples < 3 {
		c.nexamples++
		c.agg.Examples = append(c.agg.Examples, s)
	}
}

// Outcome records one observed outcome (hashed) for the vacuity guard.
func (c *Ctx) Outcome(s string) {
	if len(c.agg.Outcomes) < 50000 {
		h := fnv.New64a()
		h.Write([]byte(s))
		c.agg.Outcomes[strconv.FormatUint(h.Sum64(), 36)] = true
	}
}

// SetAdd adds an element to a named small set (e.g. instruction kinds covered).
func (c *Ctx) SetAdd(set, elem string) {
	m := c.agg.Sets[set]
	if m == nil {
		m = map[string]bool{}
		c.agg.Sets[set] = m
	}
	if len(m) < 5000 {
		m[elem] = true
	}
}

// Violation records a violation under a class key; the smallest description per
// class is kept (cases are enumerated smallest-first).
func (c *Ctx) Violation(class, desc string, replay map[string]any) {
	addViol(c.agg.Viols, class, desc, replay)
}

// KnownHit records that a listed known finding was reproduced.
func (c *Ctx) KnownHit(id, desc string, replay map[string]any) {
	addViol(c.agg.Known, id, desc, replay)
}

func addViol(m map[string]*Viol, class, desc string, replay map[string]any) {
	if v, ok := m[class]; ok {
		v.Count++
		if len(desc) < len(v.Desc) {
			v.Desc, v.Replay = desc, replay
		}
		return
	}
	if len(m) >= 400 {
		class = "(overflow)"
		if v, ok := m[class]; ok {
			v.Count++
			return
		}
	}
	m[class] = &Viol{Class: class, Desc: desc, Replay: replay, Count: 1}
}

// cpuNanos: CPU time (user+system) consumed by this process. The watchdog measures a
// unit in CPU time, not wall time: a frozen or starved process (sandbox snapshot, overload)
// makes no progress on either clock, while a spinning one burns CPU.
func cpuNanos() int64 {
	var ru syscall.Rusage
	if syscall.Getrusage(syscall.RUSAGE_SELF, &ru) != nil {
		return time.Now().UnixNano()
	}
	return ru.Utime.Nano() + ru.Stime.Nano()
}

// ---------------------------------------------------------------- worker main

func workerMain(args []string) {
	id := args[0]
	ck := checks[id]
	if ck == nil {
		fmt.Fprintln(os.Stderr, "unknown check", id)
		os.Exit(2)
	}
	c := &Ctx{Tier: "quick", NShards: 1, Only: -1, Skip: map[int64]bool{}, agg: newAgg()}
	var progressPath string
	for i := 1; i < len(args); i++ {
		a := args[i]
		val := func() string { i++; return args[i] }
		switch a {
		case "--tier":
			c.Tier = val()
		case "--seed":
			c.Seed, _ = strconv.ParseInt(val(), 10, 64)
		case "--shard":
			c.Shard, _ = strconv.Atoi(val())
		case "--nshards":
			c.NShards, _ = strconv.Atoi(val())
		case "--from":
			c.From, _ = strconv.ParseInt(val(), 10, 64)
		case "--only":
			c.Only, _ = strconv.ParseInt(val(), 10, 64)
		case "--skip":
			for _, s := range strings.Split(val(), ",") {
				if s != "" {
					n, _ := strconv.ParseInt(s, 10, 64)
					c.Skip[n] = true
				}
			}
		case "--deadline":
			n, _ := strconv.ParseInt(val(), 10, 64)
			c.Deadline = time.Unix(n, 0)
		case "--progress":
			progressPath = val()
		}
	}
	if c.Deadline.IsZero() {
		c.Deadline = time.Now().Add(24 * time.Hour)
	}
	// results go to fd 3; library code prints on stdout, which the supervisor discards
	res := os.NewFile(3, "results")
	if res == nil {
		res = os.Stderr
	}
	w := bufio.NewWriterSize(res, 1<<16)
	c.out = json.NewEncoder(w)
	if progressPath != "" {
		c.progress, _ = os.OpenFile(progressPath, os.O_RDWR|os.O_CREATE, 0o644)
	}
	var lim syscall.Rlimit
	lim.Cur, lim.Max = 6<<30, 6<<30
	syscall.Setrlimit(syscall.RLIMIT_AS, &lim)
	debug.SetMaxStack(256 << 20)
	c.limit = ck.UnitLimit
	if c.limit == 0 {
		c.limit = 20 * time.Second
	}
	if c.Only >= 0 {
		c.limit = 40 * time.Second
	}
	c.lastEmit = time.Now()
	// watchdog: a unit that runs too long or a heap that grows too large is a hang
	go func() {
		var ms runtime.MemStats
		tick := 0
		var lastStart, unitTicks int64
		for {
			time.Sleep(50 * time.Millisecond)
			tick++
			st := c.curStart.Load()
			if st == 0 {
				continue
			}
			why := ""
			used := time.Duration(cpuNanos() - st)
			if st != lastStart {
				lastStart, unitTicks = st, 0
			}
			unitTicks++ // time as this process experiences it (a frozen process does not tick)
			if used > c.limit {
				why = fmt.Sprintf("no progress for %v of CPU time", c.limit)
			} else if unitTicks > 900 && used < 2*time.Second {
				// neither finishing nor burning CPU for 45 s: blocked (a lock that is never released, a read that never returns)
				why = "blocked: 45 s without finishing and with almost no CPU time used"
			} else if tick%4 == 0 {
				runtime.ReadMemStats(&ms)
				if ms.HeapAlloc > 2<<30 {
					why = fmt.Sprintf("heap grew to %d MiB", ms.HeapAlloc>>20)
				}
			}
			if why != "" {
				c.mu.Lock()
				d, _ := c.curDesc.Load().(string)
				c.out.Encode(map[string]any{"t": "hang", "unit": c.curUnit.Load(), "desc": d, "why": why})
				w.Flush()
				os.Exit(3)
			}
		}
	}()
	ck.Run(c)
	c.Level("") // close the last level
	c.curStart.Store(0)
	c.mu.Lock()
	c.out.Encode(map[string]any{"t": "delta", "upto": c.unit, "agg": c.agg})
	c.out.Encode(map[string]any{"t": "done", "units_total": c.unit, "stopped": c.stopped})
	w.Flush()
	os.Exit(0)
}

// ---------------------------------------------------------------- supervisor

type shardState struct {
	idx      int
	from     int64
	skip     []int64
	done     bool
	stopped  bool
	expensive int
	nexamples int
	total    int64
	levels   []string
	restarts int
}

func envInt(name string, def int) int {
	if v := os.Getenv(name); v != "" {
		if n, err := strconv.Atoi(v); err == nil {
			return n
		}
	}
	return def
}

func checkMain(args []string) {
	id := args[0]
	ck := checks[id]
	if ck == nil {
		fmt.Fprintln(os.Stderr, "unknown check", id)
		os.Exit(2)
	}
	tier := os.Getenv("VERIF_TIER")
	if tier == "" {
		tier = "quick"
	}
	for i := 1; i < len(args); i++ {
		if args[i] == "--tier" && i+1 < len(args) {
			tier = args[i+1]
			i++
		}
	}
	seed := int64(envInt("VERIF_SEED", 0))
	budget := 150
	if tier == "thorough" {
		budget = 1500
	}
	if b, ok := ck.Budget[tier]; ok {
		budget = b
	}
	budget = envInt("VERIF_BUDGET_S", budget)
	n := ck.Shards
	if n == 0 {
		n = runtime.NumCPU()
		if n > 16 {
			n = 16
		}
	}
	n = envInt("VERIF_SHARDS", n)
	t0 := time.Now()
	if ck.Prepare != nil {
		if err := ck.Prepare(); err != nil {
			fmt.Printf("PREPARE FAILED for %s: %v\n", id, err)
			os.Exit(2)
		}
	}
	workerBin = ck.WorkerBin
	deadline := t0.Add(time.Duration(budget) * time.Second)
	tmp, _ := os.MkdirTemp("", "vmc-"+id+"-")
	defer os.RemoveAll(tmp)

	total := newAgg()
	var mu sync.Mutex
	type hang struct {
		unit      int64
		desc, why string
	}
	var hangs []hang
	var stopAll atomic.Bool
	shards := make([]*shardState, n)
	var wg sync.WaitGroup
	for i := 0; i < n; i++ {
		shards[i] = &shardState{idx: i}
		wg.Add(1)
		go func(s *shardState) {
			defer wg.Done()
			for !s.done && s.restarts < 12 && !stopAll.Load() && harnessErr.Load() == nil {
				prog := filepath.Join(tmp, fmt.Sprintf("progress-%d", s.idx))
				os.Remove(prog)
				var sk []string
				for _, u := range s.skip {
					sk = append(sk, strconv.FormatInt(u, 10))
				}
				wargs := []string{"worker", id, "--tier", tier, "--seed", fmt.Sprint(seed), "--shard", fmt.Sprint(s.idx),
					"--nshards", fmt.Sprint(n), "--from", fmt.Sprint(s.from), "--skip", strings.Join(sk, ","),
					"--deadline", fmt.Sprint(deadline.Unix()), "--progress", prog}
				lastUpto, hg, finished := runWorker(wargs, tmp, func(a *Agg) {
					mu.Lock()
					total.merge(a)
					s.levels = append(s.levels, a.Levels...)
					mu.Unlock()
				}, s)
				if finished {
					s.done = true
					break
				}
				// abnormal end: find the unit that was running
				bad := int64(-1)
				desc, why := "", "worker died"
				if hg != nil {
					bad, desc, why = hg.unit, hg.desc, hg.why
				} else if b, err := os.ReadFile(prog); err == nil {
					rec := strings.TrimRight(string(b), "\x00")
					if tab := strings.IndexByte(rec, '\t'); tab > 0 {
						bad, _ = strconv.ParseInt(rec[:tab], 10, 64)
						desc = rec[tab+1:]
					}
				}
				s.restarts++
				if bad < 0 {
					mu.Lock()
					total.Notes = append(total.Notes, fmt.Sprintf("shard %d died without progress record; restarted", s.idx))
					mu.Unlock()
					s.from = lastUpto + 1
					continue
				}
				// confirm solo with a longer limit
				_, hg2, fin2 := runWorker([]string{"worker", id, "--tier", tier, "--seed", fmt.Sprint(seed), "--only", fmt.Sprint(bad),
					"--nshards", "1", "--progress", prog + ".solo"}, tmp, func(a *Agg) {}, nil)
				mu.Lock()
				if !fin2 {
					if hg2 != nil {
						why = hg2.why
					}
					hangs = append(hangs, hang{bad, desc, why})
					if len(hangs) >= 3 {
						stopAll.Store(true)
						go killWorkers()
					}
				} else {
					total.Notes = append(total.Notes, fmt.Sprintf("unit %d (%s) exceeded its limit under load but completed solo; not a violation", bad, desc))
				}
				mu.Unlock()
				s.skip = append(s.skip, bad)
				if lastUpto+1 > s.from {
					s.from = lastUpto + 1
				}
			}
		}(shards[i])
	}
	wg.Wait()

	// levels completed by every shard
	cnt := map[string]int{}
	var order []string
	for _, s := range shards {
		seen := map[string]bool{}
		for _, l := range s.levels {
			if !seen[l] {
				seen[l] = true
				if cnt[l] == 0 {
					order = append(order, l)
				}
				cnt[l]++
			}
		}
	}
	var completed []string
	for _, l := range order {
		if cnt[l] == n {
			completed = append(completed, l)
		}
	}
	exhaustive := true
	for _, s := range shards {
		if !s.done || s.stopped {
			exhaustive = false
		}
	}

	if he := harnessErr.Load(); he != nil {
		fmt.Printf("HARNESS-ERROR: a worker of %s panicked outside the code under test (this is a bug in /verif, not a verdict):\n%s\n", id, he)
		os.Exit(2)
	}
	for _, h := range hangs {
		kind := "worker died"
		if strings.HasPrefix(h.why, "heap") {
			kind = "memory"
		} else if strings.HasPrefix(h.why, "no progress") {
			kind = "time"
		} else if strings.HasPrefix(h.why, "blocked") {
			kind = "blocked"
		}
		addViol(total.Viols, "HANG/CRASH "+kind, h.desc, map[string]any{"kind": "hang", "check": id, "unit": h.unit, "desc": h.desc, "why": h.why, "tier": tier})
	}

	// report
	os.MkdirAll(filepath.Join(verifRoot, "replays", id), 0o755)
	var classes []string
	for k := range total.Viols {
		classes = append(classes, k)
	}
	sort.Slice(classes, func(i, j int) bool {
		a, b := total.Viols[classes[i]], total.Viols[classes[j]]
		if len(a.Desc) != len(b.Desc) {
			return len(a.Desc) < len(b.Desc)
		}
		return a.Desc < b.Desc
	})
	var knownIDs []string
	for k := range total.Known {
		knownIDs = append(knownIDs, k)
	}
	sort.Strings(knownIDs)
	for _, k := range knownIDs {
		v := total.Known[k]
		fmt.Printf("KNOWN-FINDING: property=%s %s — %s (%d cases, e.g. %s)\n", id, k, knownWhat(id, k), v.Count, v.Desc)
	}
	nviol := 0
	for i, k := range classes {
		v := total.Viols[k]
		nviol++
		if i >= 20 {
			if os.Getenv("VERIF_SHOW_ALL") != "" {
				fmt.Printf("  more: %s (%d cases) e.g. %s\n", v.Class, v.Count, v.Desc)
			}
			continue
		}
		rec := v.Replay
		if rec == nil {
			rec = map[string]any{}
		}
		rec["check"] = id
		rec["class"] = v.Class
		rec["desc"] = v.Desc
		rec["cases_in_class"] = v.Count
		if src, ok := rec["src"].(string); ok {
			if text, ok := rec["text"].(string); ok {
				rec["go_test"] = fmt.Sprintf("func TestReplay(t *testing.T) {\n\t// %%s\n\tv, err := libvore.Compile(%%q)\n\tif err != nil {\n\t\tt.Fatal(err)\n\t}\n\tfor _, m := range v.Run(%%q) {\n\t\tt.Logf(\"%%%%d [%%%%d,%%%%d) %%%%q repl=%%%%v vars=%%%%v\", m.MatchNumber, m.Offset.Start, m.Offset.End, m.Value, m.Replacement, m.Variables.ToGo())\n\t}\n\tt.Error(\"compare the logged matches with the expectation in the comment above\")\n}\n", strings.ReplaceAll(v.Desc, "\n", " "), src, text)
			}
		}
		b, _ := json.MarshalIndent(rec, "", " ")
		sum := sha1.Sum(b)
		path := filepath.Join(verifRoot, "replays", id, hex.EncodeToString(sum[:6])+".json")
		os.WriteFile(path, b, 0o644)
		fmt.Printf("VIOLATION property=%s replay=%s\n", id, path)
		fmt.Printf("  class: %s (%d cases)\n  smallest: %s\n", v.Class, v.Count, v.Desc)
	}

	cov := map[string]any{
		"evaluations":         total.Evals,
		"distinct_nontrivial": total.Nontrivial,
		"rule":                ck.Rule,
		"samples":             append(append([]any{}, total.Examples...), total.Samples...),
		"units":               total.Units,
		"exhaustive":          exhaustive,
		"levels_completed":    completed,
		"distinct_outcomes":   len(total.Outcomes),
		"counters":            total.Counters,
		"maxima":              total.Maxes,
		"shards":              n,
		"budget_s":            budget,
		"known_findings_hit":  append([]string{}, knownIDs...),
		"violation_classes":   nviol,
	}
	for s, m := range total.Sets {
		var ks []string
		for k := range m {
			ks = append(ks, k)
		}
		sort.Strings(ks)
		if len(ks) > 60 {
			cov[s+"_count"] = len(ks)
			ks = ks[:60]
		}
		cov[s] = ks
	}
	if len(total.Notes) > 0 {
		if len(total.Notes) > 20 {
			total.Notes = total.Notes[:20]
		}
		cov["notes"] = total.Notes
	}
	if ck.Post != nil {
		ck.Post(total, cov)
	}
	if len(total.Samples)+len(total.Examples) == 0 {
		cov["samples"] = []any{"(no unit executed)"}
	}
	ev := map[string]any{
		"property_id": id,
		"tier":        tier,
		"seed":        seed,
		"level":       ck.Level,
		"coverage":    cov,
		"assumptions": ck.Assume,
		"wall_s":      time.Since(t0).Seconds(),
		"violations":  nviol,
	}
	b, _ := json.MarshalIndent(ev, "", " ")
	os.MkdirAll(filepath.Join(verifRoot, "evidence"), 0o755)
	os.WriteFile(filepath.Join(verifRoot, "evidence", id+".json"), append(b, '\n'), 0o644)
	fmt.Printf("%s %s: units=%d evaluations=%d nontrivial=%d outcomes=%d levels=%v exhaustive=%v violations=%d known=%d wall=%.1fs\n",
		id, tier, total.Units, total.Evals, total.Nontrivial, len(total.Outcomes), completed, exhaustive, nviol, len(knownIDs), time.Since(t0).Seconds())
	if n := total.Counters["ORACLE-DISAGREEMENT"]; n > 0 {
		fmt.Printf("ORACLE-DISAGREEMENT: the reference model and an independent arbiter disagree on %d cases (see coverage.notes); the reference model must be corrected before this check can be trusted\n", n)
		os.Exit(2)
	}
	if nviol > 0 {
		os.Exit(1)
	}
}

type hangRec struct {
	unit      int64
	desc, why string
}

// runWorker starts one worker, feeds deltas to onDelta and returns the last unit
// index covered by a delta, a hang record if the watchdog fired, and whether the
// worker finished normally.
var harnessErr atomic.Value // first unrecovered Go panic of a worker (= bug in the harness, never a violation)

var workerBin = ""

var liveMu sync.Mutex
var live = map[*exec.Cmd]bool{}

func killWorkers() {
	liveMu.Lock()
	defer liveMu.Unlock()
	for c := range live {
		if c.Process != nil {
			c.Process.Kill()
		}
	}
}

func runWorker(wargs []string, tmp string, onDelta func(*Agg), s *shardState) (int64, *hangRec, bool) {
	pr, pw, _ := os.Pipe()
	bin := os.Args[0]
	if workerBin != "" {
		bin = workerBin
	}
	cmd := exec.Command(bin, wargs...)
	cmd.Env = append(os.Environ(), "GOMAXPROCS=2", "GOTRACEBACK=single")
	cmd.ExtraFiles = []*os.File{pw}
	cmd.SysProcAttr = &syscall.SysProcAttr{Pdeathsig: syscall.SIGKILL}
	cmd.Stdout = nil
	errf, _ := os.CreateTemp(tmp, "stderr-")
	cmd.Stderr = errf
	cmd.Dir = tmp
	runtime.LockOSThread() // Pdeathsig is bound to the starting thread: keep it alive while the child runs
	defer runtime.UnlockOSThread()
	if err := cmd.Start(); err != nil {
		fmt.Fprintln(os.Stderr, "cannot start worker:", err)
		return -1, nil, false
	}
	liveMu.Lock()
	live[cmd] = true
	liveMu.Unlock()
	defer func() {
		liveMu.Lock()
		delete(live, cmd)
		liveMu.Unlock()
	}()
	pw.Close()
	lastUpto := int64(-1)
	var hg *hangRec
	finished := false
	dec := json.NewDecoder(bufio.NewReaderSize(pr, 1<<20))
	for {
		var m struct {
			T       string `json:"t"`
			Upto    int64  `json:"upto"`
			Agg     *Agg   `json:"agg"`
			Unit    int64  `json:"unit"`
			Desc    string `json:"desc"`
			Why     string `json:"why"`
			Total   int64  `json:"units_total"`
			Stopped bool   `json:"stopped"`
		}
		if err := dec.Decode(&m); err != nil {
			break
		}
		switch m.T {
		case "delta":
			if m.Agg != nil {
				fixAgg(m.Agg)
				onDelta(m.Agg)
			}
			lastUpto = m.Upto
		case "hang":
			hg = &hangRec{m.Unit, m.Desc, m.Why}
		case "done":
			finished = true
			if s != nil {
				s.total, s.stopped = m.Total, m.Stopped
			}
		}
	}
	io.Copy(io.Discard, pr)
	pr.Close()
	cmd.Wait()
	if !finished && hg == nil {
		// keep the tail of stderr for diagnosis
		errf.Seek(0, 0)
		b, _ := io.ReadAll(errf)
		if len(b) > 600 {
			b = b[:600]
		}
		if len(b) > 0 {
			fmt.Fprintf(os.Stderr, "[worker %v died] %s\n", wargs[:2], strings.TrimSpace(string(b)))
			if strings.HasPrefix(strings.TrimSpace(string(b)), "panic:") {
				harnessErr.CompareAndSwap(nil, strings.TrimSpace(string(b)))
			}
		}
	}
	errf.Close()
	os.Remove(errf.Name())
	return lastUpto, hg, finished
}

func fixAgg(a *Agg) {
	if a.Counters == nil {
		a.Counters = map[string]int64{}
	}
	if a.Maxes == nil {
		a.Maxes = map[string]int64{}
	}
	if a.Outcomes == nil {
		a.Outcomes = map[string]bool{}
	}
	if a.Sets == nil {
		a.Sets = map[string]map[string]bool{}
	}
	if a.Viols == nil {
		a.Viols = map[string]*Viol{}
	}
	if a.Known == nil {
		a.Known = map[string]*Viol{}
	}
}

// ---------------------------------------------------------------- known findings

type knownFinding struct {
	Kind     string   `json:"kind"` // "finding" | "fixed"
	Property string   `json:"property"`
	ID       string   `json:"id"`
	What     string   `json:"what"`
	Where    string   `json:"where"`
	Cases    []string `json:"cases"`
	Commit   string   `json:"commit,omitempty"`
}

var knownOnce sync.Once
var knownList []knownFinding

func loadKnown() []knownFinding {
	knownOnce.Do(func() {
		b, err := os.ReadFile(filepath.Join(verifRoot, "known_findings.json"))
		if err == nil {
			var f struct {
				Entries []knownFinding `json:"entries"`
			}
			if json.Unmarshal(b, &f) == nil {
				knownList = f.Entries
			}
		}
	})
	return knownList
}

// knownActive reports whether a finding with this id is listed (as a finding,
// not as fixed) for the property.
func knownActive(prop, id string) bool {
	for _, k := range loadKnown() {
		if k.Kind == "finding" && k.Property == prop && k.ID == id {
			return true
		}
	}
	return false
}

func knownWhat(prop, id string) string {
	for _, k := range loadKnown() {
		if k.Property == prop && k.ID == id {
			return k.What
		}
	}
	return ""
}

// knownCase reports whether the exact case string is listed under the finding.
func knownCase(prop, id, cs string) bool {
	for _, k := range loadKnown() {
		if k.Kind == "finding" && k.Property == prop && k.ID == id {
			for _, c := range k.Cases {
				if c == cs {
					return true
				}
			}
		}
	}
	return false
}
