package main

import (
	"fmt"
	"reflect"
	"strings"

	"github.com/jmeaster30/vore/libvore/ast"
	"github.com/jmeaster30/vore/libvore/bytecode"
)

var soupTokens = strings.Split("find|replace|set|with|to|pattern|transform|matches|all|skip|take|top|last|3|'a'|x|=|(|)|{|}|,|any|digit|line|file|word|start|end|whole|not|at|least|most|between|and|exactly|maybe|fewest|named|in|or|caseless|begin|if|then|else|return|loop|break|continue|debug|true|head|+|-|==|<|@/a/|@/(a/|@/a{/|@/[/|@/\\/|-- c\n|--(c)--|--|:|'a|@/a|--(c|!", "|")

var soupTokensReduced = strings.Split("find|set|with|to|pattern|transform|all|3|'a'|x|=|(|)|{|}|,|line|start|end|not|at|least|named|in|or|begin|if|then|return|loop|+|@/(a)/|-- c\n", "|")

var soupContexts = []string{"", "find all ", "find all 'a' ", "replace all 'a' with ", "set f to transform ", "set f to transform return ", "set f to transform if ", "set p to pattern ", "set p to pattern 'a' begin ", "find all in ", "find all at least 1 'a' ", "find all ( ", "find all { 'a' } = s ", "set p to pattern 'a' begin return ( "}

const regexBodyAlphabet = "a1\\()[]{}?*+|^$.-<>k,:=!"

func joinTokens(ts []string) string {
	var b strings.Builder
	for i, t := range ts {
		if i > 0 {
			b.WriteByte(' ')
		}
		b.WriteString(t)
		if strings.HasPrefix(t, "--") && !strings.HasPrefix(t, "--(") && !strings.HasSuffix(t, "\n") {
			b.WriteByte('\n')
		}
	}
	return b.String()
}

// nilHole walks an AST by reflection and reports the path of the first nil
// interface / pointer found in an expression or statement position.
func nilHole(x reflect.Value, path string, depth int) string {
	if depth > 200 {
		return ""
	}
	switch x.Kind() {
	case reflect.Interface, reflect.Ptr:
		if x.IsNil() {
			return path + " is nil"
		}
		return nilHole(x.Elem(), path, depth+1)
	case reflect.Struct:
		for i := 0; i < x.NumField(); i++ {
			f := x.Type().Field(i)
			if !f.IsExported() {
				continue
			}
			if h := nilHole(x.Field(i), path+"."+f.Name, depth+1); h != "" {
				return h
			}
		}
	case reflect.Slice:
		for i := 0; i < x.Len(); i++ {
			if h := nilHole(x.Index(i), fmt.Sprintf("%s[%d]", path, i), depth+1); h != "" {
				return h
			}
		}
	}
	return ""
}

// totalCompile checks one source against the C08 oracle; returns (class, message) or "".
func totalCompile(src string) (string, string, bool) {
	v, err, pi := compileSafe(src)
	if pi != nil {
		return "PANIC " + pi.Site, fmt.Sprintf("Compile(%q) panics: %s", src, pi.Msg), false
	}
	if (v == nil) == (err == nil) {
		return "BOTH-OR-NEITHER", fmt.Sprintf("Compile(%q) returned program=%v error=%v", src, v != nil, err), false
	}
	if err != nil {
		var msg string
		if p := guard(func() { msg = err.Error() }); p != nil {
			return "ERROR-UNPRINTABLE " + p.Site, fmt.Sprintf("Compile(%q): err.Error() panics: %s", src, p.Msg), false
		}
		_ = msg
		return "", "", false
	}
	// accepted: the tree must have no holes and every command must have been generated
	var tree *ast.Ast
	var perr error
	if p := guard(func() { tree, perr = ast.ParseReader(strings.NewReader(src)) }); p != nil || perr != nil || tree == nil {
		return "ACCEPTED-BUT-REPARSE-FAILS", fmt.Sprintf("Compile(%q) accepted but ParseReader gives %v %v", src, perr, p), true
	}
	cmds := tree.Commands()
	for i, cm := range cmds {
		if h := nilHole(reflect.ValueOf(&cm).Elem(), fmt.Sprintf("command[%d]", i), 0); h != "" {
			return "HOLE", fmt.Sprintf("Compile(%q) accepted a tree with a hole: %s", src, h), true
		}
	}
	var bc *bytecode.Bytecode
	if p := guard(func() { bc, _ = bytecode.GenerateBytecode(tree) }); p != nil || bc == nil || len(bc.Bytecode) != len(cmds) {
		return "COMMANDS-SKIPPED", fmt.Sprintf("Compile(%q): %d commands parsed, bytecode for %v", src, len(cmds), bc), true
	}
	return "", "", true
}

func init() {
	register(&Check{
		ID:    "C08",
		Level: "exploration",
		Rule: "exhaustive enumeration of source texts: (1) all sequences of <= k tokens over a 66-token alphabet (one representative per parser-relevant class, incl. truncated strings/comments/regex literals) in each of 14 grammatical contexts; (2) every byte prefix and every token prefix of every corpus program (docs/examples, every source compiled by the repository's tests, generated programs covering each production); (3) every one-token deletion, duplication, adjacent swap and substitution by each alphabet token of those programs; (4) every regex-literal body of <= m chars over a 24-char alphabet and every string-literal body of <= 5 chars over {backslash, x, 0, G, both quotes, blank, newline} in both quote styles; (5) every byte string of length <= 2 (thorough 3 over a 40-byte subset); (6) 32 templates with a count in every numeric position of the language (loop bounds, nested loops, amounts, regex {n,m}, process numbers) x 16 count values from 0 to 10^30 incl. 2^31, 2^32, 2^63-1, 2^63, 2^64 (pairs for two-position templates), one source per unit; (8) every backslash escape (94 characters) in 9 regex shapes x 3 commands; (7) 54 families of nested / chained constructs (operator chains, parentheses, if / loop blocks, groups, loops, subroutines, captures, regex groups and alternations, long comments, many commands) at sizes 8..256, one source per unit; " +
			"oracle: program xor error, error printable, no panic, no hang (20 s / 2 GiB watchdog), accepted tree has no nil node and every command generated; non-trivial = distinct sources that Compile rejects with an error or accepts after a non-trivial parse (all sources are distinct by construction; counted: sources with >= 2 tokens)",
		Assume: []string{"time/memory bound is decided as: within 20 s and 2 GiB per source on the enumerated short sources"},
		Budget: map[string]int{"quick": 150, "thorough": 1500},
		UnitLimit: 20e9,
		Run:    runC08,
	})
}

type c08batch struct {
	c     *Ctx
	buf   []string
	label string
}

func (b *c08batch) add(src string) {
	b.buf = append(b.buf, src)
	if len(b.buf) >= 400 {
		b.flush()
	}
}

func (b *c08batch) flush() {
	if len(b.buf) == 0 {
		return
	}
	srcs := b.buf
	b.buf = nil
	c := b.c
	if !c.Unit(func() string { return b.label + ": " + strQuote(srcs[0]) + " .. (" + itoa(len(srcs)) + " sources)" }) {
		return
	}
	for _, src := range srcs {
		c.Sub(b.label + ": Compile(" + strQuote(src) + ")")
		c.Eval(1)
		if len(src) > 3 {
			c.Nontrivial(1)
		}
		class, msg, accepted := totalCompile(src)
		if accepted {
			c.Count("accepted", 1)
		}
		if class != "" {
			c.Violation(class, msg, map[string]any{"kind": "compile", "src": src})
			c.Outcome(class)
		} else if accepted {
			c.Outcome("accepted")
		} else {
			c.Outcome("rejected")
		}
	}
}

func runC08(c *Ctx) {
	b := &c08batch{c: c}
	// (1) token soups in context
	k := 3
	toks := soupTokens
	var rec func(prefix string, cur []string, depth int)
	rec = func(prefix string, cur []string, depth int) {
		if len(cur) > 0 {
			b.add(prefix + joinTokens(cur))
		}
		if depth == 0 {
			return
		}
		for _, t := range toks {
			rec(prefix, append(cur, t), depth-1)
		}
	}
	for kk := 1; kk <= k; kk++ {
		if !c.Level(fmt.Sprintf("soups:k=%d", kk)) {
			return
		}
		b.label = fmt.Sprintf("soup k=%d", kk)
		for _, p := range soupContexts {
			if kk == 1 {
				b.add(p)
			}
			var rk func(cur []string, depth int)
			rk = func(cur []string, depth int) {
				if depth == 0 {
					b.add(p + joinTokens(cur))
					return
				}
				for _, t := range toks {
					rk(append(cur, t), depth-1)
				}
			}
			rk(nil, kk)
		}
		b.flush()
	}
	if !c.Quick() && c.Level("soups:k=4 reduced alphabet") {
		b.label = "soup k=4r"
		toks = soupTokensReduced
		for _, p := range soupContexts {
			var rk func(cur []string, depth int)
			rk = func(cur []string, depth int) {
				if depth == 0 {
					b.add(p + joinTokens(cur))
					return
				}
				for _, t := range toks {
					rk(append(cur, t), depth-1)
				}
			}
			rk(nil, 4)
		}
		b.flush()
	}
	// (2)+(3) corpus prefixes and one-token edits
	corpus := corpusPrograms()
	c.Count("corpus_programs", int64(len(corpus)))
	if c.Level("corpus:prefixes") {
		b.label = "prefix"
		for _, p := range corpus {
			for i := 0; i <= len(p); i++ {
				b.add(p[:i])
			}
			ts := vtokens(p)
			for i := 0; i <= len(ts); i++ {
				b.add(joinTokens(ts[:i]))
			}
		}
		b.flush()
	}
	if c.Level("corpus:one-token edits") {
		b.label = "edit"
		for pi, p := range corpus {
			ts := vtokens(p)
			if len(ts) > 60 && c.Quick() {
				continue
			}
			for i := range ts {
				del := append(append([]string{}, ts[:i]...), ts[i+1:]...)
				b.add(joinTokens(del))
				dup := append(append(append([]string{}, ts[:i+1]...), ts[i]), ts[i+1:]...)
				b.add(joinTokens(dup))
				if i+1 < len(ts) {
					sw := append([]string{}, ts...)
					sw[i], sw[i+1] = sw[i+1], sw[i]
					b.add(joinTokens(sw))
				}
				if c.Quick() && pi%4 != 0 {
					continue // quick tier: substitutions on every 4th corpus program
				}
				for _, t := range soupTokens {
					sub := append([]string{}, ts...)
					sub[i] = t
					b.add(joinTokens(sub))
				}
			}
		}
		b.flush()
	}
	// (4) regex bodies
	m := c.Pick(4, 5)
	for l := 0; l <= m; l++ {
		if !c.Level(fmt.Sprintf("regex-bodies:len=%d", l)) {
			return
		}
		b.label = "regex"
		var gen func(cur []byte)
		gen = func(cur []byte) {
			if len(cur) == l {
				b.add("find all @/" + string(cur) + "/")
				return
			}
			for i := 0; i < len(regexBodyAlphabet); i++ {
				ch := regexBodyAlphabet[i]
				if l == 5 && (ch == ':' || ch == '=' || ch == '!' || ch == '.' || ch == '$' || ch == '1') {
					continue // thorough length 5 over an 18-char subset
				}
				gen(append(cur, ch))
			}
		}
		gen(nil)
		b.flush()
	}
	// (4b) string-literal bodies
	for l := 0; l <= c.Pick(5, 6); l++ {
		if !c.Level(fmt.Sprintf("string-bodies:len=%d", l)) {
			return
		}
		b.label = "string"
		alpha := "\\x0G'\" \n"
		var gen func(cur []byte)
		gen = func(cur []byte) {
			if len(cur) == l {
				b.add("find all '" + string(cur) + "'")
				b.add("find all \"" + string(cur) + "\" 'a'")
				return
			}
			for i := 0; i < len(alpha); i++ {
				gen(append(cur, alpha[i]))
			}
		}
		gen(nil)
		b.flush()
	}
	// (6) counts: every numeric position of the language x count values up to and beyond the
	// integer limits; one source per unit, so the cost of compiling it is bounded by the watchdog
	// (a count must not be paid for in compile time or memory)
	if c.Level("counts") {
		for _, src := range c08CountSources() {
			src := src
			if !c.Unit(func() string { return "counts: Compile(" + strQuote(src) + ")" }) {
				continue
			}
			c.Eval(1)
			c.Nontrivial(1)
			class, msg, accepted := totalCompile(src)
			if accepted {
				c.Count("accepted", 1)
				c.Count("count_sources_accepted", 1)
			}
			if class != "" {
				c.Violation(class, msg, map[string]any{"kind": "compile", "src": src})
				c.Outcome(class)
			} else if accepted {
				c.Outcome("accepted")
			} else {
				c.Outcome("rejected")
			}
		}
	}
	// (8) every backslash escape of the regex sub-language, in every position class
	if c.Level("regex escapes") {
		b.label = "regex-escapes"
		for ch := 0x21; ch < 0x7f; ch++ {
			e := "\\" + string(rune(ch))
			for _, shape := range []string{"@/%s/", "@/a%sb/", "@/[%s]/", "@/[^%sa]/", "@/(%s)+/", "@/%s{2}/", "@/%s?%s/", "@/(?<n>%s)\\k<n>/", "@/a|%s/"} {
				rx := strings.ReplaceAll(shape, "%s", e)
				b.add("find all " + rx)
				b.add("replace all " + rx + " with 'x'")
				b.add("set p to pattern " + rx + "\nfind all p p")
			}
		}
		b.flush()
	}
	// (7) depth and length: every nesting / chaining construct at sizes 8..256 (the cost of compiling
	// must not explode with the depth of an expression, a group, a loop or a block)
	if c.Level("depth") {
		for _, src := range c08DeepSources() {
			src := src
			if !c.Unit(func() string { return fmt.Sprintf("depth: Compile(%.60q.. %d bytes)", src, len(src)) }) {
				continue
			}
			c.Eval(1)
			c.Nontrivial(1)
			class, msg, accepted := totalCompile(src)
			if accepted {
				c.Count("accepted", 1)
				c.Count("deep_sources_accepted", 1)
			}
			if class != "" {
				c.Violation(class, trunc(msg, 400), map[string]any{"kind": "compile", "src": src})
				c.Outcome(class)
			} else if accepted {
				c.Outcome("accepted")
			} else {
				c.Outcome("rejected")
			}
		}
	}
	// (5) raw bytes
	if c.Level("bytes:len<=2") {
		b.label = "bytes"
		b.add("")
		for x := 0; x < 256; x++ {
			b.add(string([]byte{byte(x)}))
			for y := 0; y < 256; y++ {
				b.add(string([]byte{byte(x), byte(y)}))
			}
		}
		b.flush()
	}
	if !c.Quick() && c.Level("bytes:len=3 subset") {
		b.label = "bytes3"
		sub := []byte("a1 \n'\"\\@/-(){}=,:!<>+*%x\x00\x7f\x80\xff\t.^$[]|?_;#~")
		for _, x := range sub {
			for _, y := range sub {
				for _, z := range sub {
					b.add(string([]byte{x, y, z}))
				}
			}
		}
		b.flush()
	}
}

var c08Counts = []string{"0", "1", "2", "007", "64", "1000", "65536", "1000000", "2147483647", "2147483648", "4294967296", "1000000000000",
	"9223372036854775807", "9223372036854775808", "18446744073709551616", "1000000000000000000000000000000"}

// c08CountSources: each template has one or two numeric positions; every position takes every
// value of c08Counts (two positions: all pairs).
func c08CountSources() []string {
	one := []string{
		"find all exactly # 'a'", "find all at least # 'a'", "find all at most # 'a'", "find all at least # 'a' fewest", "find all exactly # ('a' = x)",
		"find all at least # (any = c) named l", "find all exactly # (exactly # 'a')", "find all at least # (at least # (at least # 'a'))",
		"find all exactly # in 'a', 'b'", "find all exactly # ('a' or 'b')", "set p to pattern exactly # 'a'\nfind all p p", "replace all at least # 'a' with 'x'",
		"find skip # 'a'", "find take # 'a'", "find top # 'a'", "find last # 'a'", "find skip # take # 'a'", "replace last # 'a' with 'b'",
		"find all @/a{#}/", "find all @/a{#,}/", "find all @/a{1,#}/", "find all @/(a{#}){#}/", "find all @/(a|b){#}c/", "find all @/a{#}?/",
		"set f to transform return # end\nreplace all 'a' with f", "set f to transform return 1 + # end\nreplace all 'a' with f",
		"set p to pattern any begin return matchLength < # end\nfind all p", "set f to transform set i to # loop if i > # then break end set i to i + 1 end return i end\nreplace all 'a' with f",
	}
	two := []string{"find all between # and # 'a'", "find all between # and # 'a' fewest", "find all @/a{#,#}/", "find all between # and # (between # and # 'a')"}
	var out []string
	for _, t := range one {
		for _, v := range c08Counts {
			out = append(out, strings.ReplaceAll(t, "#", v))
		}
	}
	for _, t := range two {
		for _, v := range c08Counts {
			for _, w := range c08Counts {
				r := strings.Replace(t, "#", v, 1)
				r = strings.Replace(r, "#", w, 1)
				r = strings.Replace(r, "#", w, 1)
				r = strings.Replace(r, "#", v, 1)
				out = append(out, r)
			}
		}
	}
	return out
}

// c08DeepSources: each family at sizes 8, 16, 32, 64, 128, 256.
func c08DeepSources() []string {
	rep := strings.Repeat
	var out []string
	for _, n := range []int{8, 16, 32, 64, 128, 256} {
		chain := func(operand, op string) string { return operand + rep(" "+op+" "+operand, n) }
		for _, e := range []string{chain("1", "+"), chain("match", "+"), chain("1", "*"), chain("true", "and"), chain("matchLength", "-"), chain("1", "=="), chain("'a'", "+"),
			rep("(", n) + "1" + rep(" + 1)", n), rep("(", n) + "1" + rep(")", n), rep("not ", n) + "true", rep("head ", n) + "match", "1" + rep(" + (2", n) + rep(")", n),
			// ill-typed at the innermost operand: the error must surface as fast as a result would
			rep("not ", n) + "5", rep("head ", n) + "true", rep("tail ", n) + "1", rep("not ", n) + "'a'", rep("not ", n) + "(1 + true)", chain("true", "+"), chain("'a'", "-")} {
			out = append(out, "set f to transform return "+e+" end\nreplace all 'a' with f")
			out = append(out, "set p to pattern 'a' begin return "+e+" == 1 end\nfind all p")
		}
		out = append(out,
			"set f to transform "+rep("if true then ", n)+"return 1 "+rep("end ", n)+"return 2 end\nreplace all 'a' with f",
			"set f to transform set i to 0 "+rep("loop ", n)+"set i to i + 1 "+rep("break end ", n)+"return i end\nreplace all 'a' with f",
			"set f to transform "+rep("set v to 1 ", n)+"return v end\nreplace all 'a' with f",
			"find all "+rep("(", n)+"'a'"+rep(")", n),
			"find all "+rep("maybe ", n)+"'a'",
			"find all "+rep("at least 1 (", n)+"'a'"+rep(")", n),
			"find all 'a'"+rep(" or 'b'", n),
			"find all "+rep("'a' ", n),
			"find all in 'a'"+rep(", 'b'", n),
			"find all "+rep("{", n)+"'a'"+rep("} = s", n),
			"find all "+rep("('a' = x", n)+rep(")", n),
			"find all @/"+rep("(", n)+"a"+rep(")", n)+"/",
			"find all @/"+rep("(?:a|", n)+"b"+rep(")", n)+"/",
			"find all @/a"+rep("|b", n)+"/",
			"find all @/"+rep("a?", n)+"/",
			"find all @/"+rep("[ab]", n)+"/",
			"find all 'a' -- "+rep("c", n*16)+"\n 'b'",
			"find all 'a' --("+rep("(c) ", n*16)+")-- 'b'",
			rep("set p to pattern 'a'\n", n)+"find all p",
			c08Chain(n, "p%d p%d"), c08Chain(n, "p%d maybe p%d 'b'"), c08Chain(n, "{p%d} = s s p%d"),
			rep("find all 'a'\n", n),
		)
	}
	return out
}

// c08Chain: n stored patterns, each mentioning the previous one twice (the program must stay linear in n)
func c08Chain(n int, body string) string {
	var b strings.Builder
	b.WriteString("set p0 to pattern 'a'\n")
	for i := 1; i <= n; i++ {
		fmt.Fprintf(&b, "set p%d to pattern %s\n", i, fmt.Sprintf(body, i-1, i-1))
	}
	fmt.Fprintf(&b, "find all p%d", n)
	return b.String()
}
