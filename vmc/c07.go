package main

import (
	"fmt"
	"os"
	"path/filepath"
	"reflect"
	"runtime"
	"strings"

	"github.com/jmeaster30/vore/libvore/engine"
	"github.com/jmeaster30/vore/libvore/files"
)

func init() {
	register(&Check{
		ID:    "C07",
		Level: "model_checking",
		Rule: "(a) explicit-state BFS of the real buffered file reader: for every file size N in {0,1,2,100,2047..2049,4095..4097,6143..6145,8191..8193,12289} the operations Seek(o);Read(k) and ReadAt(k,o) with o in {0..8} U {b-4..b+4 : b multiple of 1024 <= N} U {N-8..N} and k in {1,2,3,17,4095,4096,4097} are applied from every reachable window state (state key = (minOffset,maxOffset) read by reflection) until no new state appears; in every state the window must hold the file's bytes, on every transition the returned string must equal file[o:o+k] (or \"\" past the end); " +
			"(b) engine level: programs (literal, anchors reading one byte back, greedy loop to end of file then backtrack, lazy loop, capture + back-reference, replace, whole line, far-back backtracking) x files with the motif placed at every offset around 0/2048/4096/6144/8192 and at the end x four ways of naming the file (its path, the directory holding it, a symbolic link to it, the directory holding the link): RunFiles(NOTHING) must equal Run(string) in every field but Filename; non-trivial = transitions whose seek leaves the current window, and engine cases with a match",
		Assume: []string{"reflection reads the unexported window fields of files.BufferedFile; if a field disappears the search degrades to all operation sequences of length <= 3 and the evidence says state_key=unavailable"},
		Budget: map[string]int{"quick": 150, "thorough": 1200},
		Run:    runC07,
		Post: func(a *Agg, cov map[string]any) {
			cov["states"] = a.Counters["window_states"]
			cov["transitions"] = a.Counters["window_transitions"]
			cov["traces_validated_against_impl"] = a.Counters["window_transitions"]
			cov["explanation"] = "the state machine explored IS the implementation (files.ReaderFromFile on real files); successor states are reached by replaying the shortest operation path on a fresh reader"
		},
	})
}

func fileBytes(n int) []byte {
	b := make([]byte, n)
	for i := range b {
		b[i] = byte('!' + (i*7+i/251)%90)
		if i%509 == 508 {
			b[i] = '\n'
		}
	}
	return b
}

type winOp struct {
	ReadAt bool
	O, K   int
}

func (o winOp) String() string {
	if o.ReadAt {
		return fmt.Sprintf("ReadAt(%d,%d)", o.K, o.O)
	}
	return fmt.Sprintf("Seek(%d);Read(%d)", o.O, o.K)
}

// The window of the buffered reader is found SEMANTICALLY, not by field names: among the
// integer fields of the object behind Reader.contents, the pair (lo, hi) for which
// buffer[0:hi-lo] == file[lo:hi] holds in two probe states (fresh, and after a read far into a
// 10 000-byte file) and which moved between the two. A refactoring that renames or reorders the
// fields is followed automatically; if no such pair exists the search degrades (see windowBFS).
var winFields struct {
	probed bool
	ok     bool
	lo, hi int // field indices
	buf    int
}

func bufferedStruct(r *files.Reader) (reflect.Value, bool) {
	c := reflect.ValueOf(r).Elem().FieldByName("contents")
	if !c.IsValid() {
		// the reader's own field may be renamed too: take its first interface/pointer field
		rv := reflect.ValueOf(r).Elem()
		for i := 0; i < rv.NumField(); i++ {
			if k := rv.Field(i).Kind(); k == reflect.Interface || k == reflect.Ptr {
				c = rv.Field(i)
				break
			}
		}
	}
	if !c.IsValid() || c.IsNil() {
		return reflect.Value{}, false
	}
	bf := c.Elem()
	if bf.Kind() == reflect.Ptr {
		bf = bf.Elem()
	}
	return bf, bf.Kind() == reflect.Struct
}

func intFieldsAndBuffer(bf reflect.Value) (ints []int, buf int) {
	buf = -1
	for i := 0; i < bf.NumField(); i++ {
		f := bf.Field(i)
		switch f.Kind() {
		case reflect.Int, reflect.Int64, reflect.Int32:
			ints = append(ints, i)
		case reflect.Slice:
			if f.Type().Elem().Kind() == reflect.Uint8 && buf < 0 {
				buf = i
			}
		}
	}
	return
}

func bufBytes(v reflect.Value) []byte {
	b := make([]byte, v.Len())
	for i := range b {
		b[i] = byte(v.Index(i).Uint())
	}
	return b
}

func discoverWindowFields(dir string) {
	winFields.probed = true
	if os.Getenv("VERIF_C07_NOKEY") != "" {
		return // test switch: behave as if the window could not be located
	}
	defer func() {
		if recover() != nil {
			winFields.ok = false
		}
	}()
	content := fileBytes(10000)
	path := filepath.Join(dir, "probe")
	os.WriteFile(path, content, 0o644)
	type obs struct {
		vals map[int]int64
		buf  []byte
	}
	observe := func(r *files.Reader) (obs, bool) {
		bf, ok := bufferedStruct(r)
		if !ok {
			return obs{}, false
		}
		ints, bi := intFieldsAndBuffer(bf)
		if bi < 0 {
			return obs{}, false
		}
		o := obs{vals: map[int]int64{}, buf: bufBytes(bf.Field(bi))}
		for _, i := range ints {
			o.vals[i] = bf.Field(i).Int()
		}
		winFields.buf = bi
		return o, true
	}
	r := files.ReaderFromFile(path)
	o1, ok1 := observe(r)
	r.ReadAt(1, 9000)
	o2, ok2 := observe(r)
	r.Close()
	if !ok1 || !ok2 {
		return
	}
	holds := func(o obs, lo, hi int64) bool {
		return lo >= 0 && hi > lo && hi <= 10000 && int(hi-lo) <= len(o.buf) && string(o.buf[:hi-lo]) == string(content[lo:hi])
	}
	best := int64(-1)
	for a := range o1.vals {
		for b := range o1.vals {
			if a == b {
				continue
			}
			if holds(o1, o1.vals[a], o1.vals[b]) && holds(o2, o2.vals[a], o2.vals[b]) && (o1.vals[a] != o2.vals[a] || o1.vals[b] != o2.vals[b]) {
				if w := o2.vals[b] - o2.vals[a]; w > best {
					best, winFields.lo, winFields.hi, winFields.ok = w, a, b, true
				}
			}
		}
	}
}

// windowKey reads (window start, window end) and the buffer of the reader.
func windowKey(r *files.Reader) (key [2]int64, buf []byte, ok bool) {
	defer func() {
		if recover() != nil {
			ok = false
		}
	}()
	if !winFields.ok {
		return key, nil, false
	}
	bf, ok := bufferedStruct(r)
	if !ok {
		return key, nil, false
	}
	key = [2]int64{bf.Field(winFields.lo).Int(), bf.Field(winFields.hi).Int()}
	return key, bufBytes(bf.Field(winFields.buf)), true
}

func applyOp(r *files.Reader, op winOp) (res string, pi *PanicInfo) {
	pi = guard(func() {
		if op.ReadAt {
			res = r.ReadAt(op.K, op.O)
		} else {
			r.Seek(op.O)
			res = r.Read(op.K)
		}
	})
	return
}

func windowBFS(c *Ctx, dir string, n int) {
	if !winFields.probed {
		discoverWindowFields(dir)
	}
	content := fileBytes(n)
	path := filepath.Join(dir, fmt.Sprintf("w%d", n))
	os.WriteFile(path, content, 0o644)
	// operation alphabet
	offs := map[int]bool{}
	for o := 0; o <= 8; o++ {
		offs[o] = true
	}
	for b := 1024; b <= n; b += 1024 {
		for d := -4; d <= 4; d++ {
			offs[b+d] = true
		}
	}
	for o := n - 8; o <= n; o++ {
		offs[o] = true
	}
	var ops []winOp
	for o := range offs {
		if o < 0 || o > n {
			continue
		}
		for _, k := range []int{1, 2, 3, 17, 4095, 4096, 4097} {
			ops = append(ops, winOp{false, o, k}, winOp{true, o, k})
		}
	}
	sortOps(ops)
	if !winFields.ok {
		// no state key: all operation sequences of length <= 2 over a reduced alphabet (every third operation)
		var red []winOp
		for i, op := range ops {
			if i%3 == 0 {
				red = append(red, op)
			}
		}
		ops = red
	}
	open := func(pathOps []winOp) (*files.Reader, *PanicInfo) {
		var r *files.Reader
		pi := guard(func() { r = files.ReaderFromFile(path) })
		if pi != nil {
			return nil, pi
		}
		for _, op := range pathOps {
			if _, pi := applyOp(r, op); pi != nil {
				return r, pi
			}
		}
		return r, nil
	}
	rec := func(pathOps []winOp, op *winOp) map[string]any {
		var p []string
		for _, o := range pathOps {
			p = append(p, o.String())
		}
		if op != nil {
			p = append(p, op.String())
		}
		return map[string]any{"kind": "window", "size": n, "ops": p}
	}
	checkState := func(r *files.Reader, pathOps []winOp) ([2]int64, bool, bool) {
		key, buf, ok := windowKey(r)
		if !ok {
			return key, false, true
		}
		if key[0] < 0 || key[1] < key[0] || key[1] > int64(n) || int(key[1]-key[0]) > len(buf) {
			c.Violation("WINDOW-BOUNDS", fmt.Sprintf("size %d after %v: window [%d,%d) is not within the file", n, rec(pathOps, nil)["ops"], key[0], key[1]), rec(pathOps, nil))
			return key, true, false
		}
		if string(buf[:key[1]-key[0]]) != string(content[key[0]:key[1]]) {
			c.Violation("WINDOW-CONTENT", fmt.Sprintf("size %d after %v: window [%d,%d) does not hold the file's bytes", n, rec(pathOps, nil)["ops"], key[0], key[1]), rec(pathOps, nil))
			return key, true, false
		}
		return key, true, true
	}
	r0, pi := open(nil)
	if pi != nil {
		c.Violation("OPEN-PANIC "+pi.Site, fmt.Sprintf("ReaderFromFile on a %d-byte file panics: %s", n, pi.Msg), rec(nil, nil))
		return
	}
	k0, keyOK, _ := checkState(r0, nil)
	r0.Close()
	type node struct {
		path []winOp
	}
	seen := map[[2]int64]bool{k0: true}
	frontier := []node{{nil}}
	if !keyOK {
		c.Note("state_key: unavailable (reflection on BufferedFile failed); exploring all operation sequences of length <= 2 over a reduced alphabet instead")
	}
	depth := 0
	for len(frontier) > 0 {
		var next []node
		for _, nd := range frontier {
			for i := range ops {
				op := ops[i]
				r, pi := open(nd.path)
				if pi != nil {
					continue
				}
				keyBefore, _, _ := windowKey(r)
				res, pi := applyOp(r, op)
				c.Count("window_transitions", 1)
				c.Eval(1)
				if pi != nil {
					c.Violation("READ-PANIC "+pi.Site, fmt.Sprintf("size %d: %v then %s panics: %s", n, rec(nd.path, nil)["ops"], op, pi.Msg), rec(nd.path, &op))
					r.Close()
					continue
				}
				want := ""
				if op.O+op.K <= n {
					want = string(content[op.O : op.O+op.K])
				}
				if res != want {
					c.Violation("READ-VALUE", fmt.Sprintf("size %d: %v then %s returns %d bytes %.20q, the file has %d bytes %.20q there", n, rec(nd.path, nil)["ops"], op, len(res), res, len(want), want), rec(nd.path, &op))
					r.Close()
					continue
				}
				if len(nd.path) >= 1 && i%97 == 0 {
					c.Sample(map[string]any{"file_size": n, "path_to_state": fmt.Sprint(nd.path), "operation": op.String(), "returned_bytes": len(res)})
				}
				np := append(append([]winOp{}, nd.path...), op)
				key, ok, good := checkState(r, np)
				r.Close()
				if ok && key != keyBefore {
					c.Nontrivial(1)
				}
				if !good {
					continue
				}
				if keyOK {
					if !seen[key] {
						seen[key] = true
						next = append(next, node{np})
					}
				} else if depth < 1 {
					next = append(next, node{np})
				}
			}
		}
		frontier = next
		depth++
		if depth > 64 {
			break
		}
	}
	c.Count("window_states", int64(len(seen)))
	c.Max("bfs_depth", int64(depth))
	c.Outcome(fmt.Sprint(n, len(seen)))
}

func sortOps(ops []winOp) {
	for i := 1; i < len(ops); i++ {
		for j := i; j > 0; j-- {
			a, b := ops[j-1], ops[j]
			if a.O < b.O || (a.O == b.O && (a.K < b.K || (a.K == b.K && (!a.ReadAt || b.ReadAt)))) {
				break
			}
			ops[j-1], ops[j] = b, a
		}
	}
}

var c07Programs = []string{
	"find all 'ab'", "find all word start 'ab' word end", "find all line start any", "find all any line end", "find all 'a' at least 0 any 'zz'", "find all 'a' at least 0 any fewest 'zz'",
	"find all 'a' at least 1 any fewest 'b'", "find all (any = x) 'b' x", "replace all 'ab' with 'X' value", "find all whole line", "find all not line start 'ab'", "find all whole file", "find all caseless 'AB'", "find all caseless 'Ab' any", "find all file start any",
	"replace all 'ab' with 'X'\nfind all 'ab'", "find all 'a'\nreplace all 'b' with 'c' value\nfind skip 1 any 'b'", "replace all 'a' with ''\nreplace all 'b' with 'B'",
	"find last 2 'b' maybe '\\n'", "find all 'ab' file end", "find all file start any", "find skip 1 take 2 in 'a', 'b'",
}

func runC07(c *Ctx) {
	dir, err := os.MkdirTemp("", "vmc-c07-")
	if err != nil {
		return
	}
	defer os.RemoveAll(dir)
	sizes := []int{0, 1, 2, 100, 2047, 2048, 2049, 4095, 4096, 4097, 6144, 8193}
	if !c.Quick() {
		sizes = []int{0, 1, 2, 3, 100, 1023, 1024, 2047, 2048, 2049, 4094, 4095, 4096, 4097, 4098, 6143, 6144, 6145, 8191, 8192, 8193, 12289}
	}
	if c.Level("window-machine") {
		for _, n := range sizes {
			n := n
			if c.Unit(func() string { return fmt.Sprintf("buffer window BFS, file of %d bytes", n) }) {
				windowBFS(c, dir, n)
				runtime.GC()
			}
		}
	}
	if !c.Level("engine:file-vs-string") {
		return
	}
	esizes := []int{0, 1, 5, 9, 600, 4095, 4096, 4097, 6200, 8193}
	if !c.Quick() {
		esizes = append(esizes, 2, 2048, 4094, 4098, 8191, 8192, 12289)
	}
	if c.Level("engine:several files") {
		contents := []string{"ab ab\nb", strings.Repeat("c", 4094) + "abab", "", "b" + strings.Repeat("ab\n", 1500)}
		var paths []string
		for i, ct := range contents {
			p := filepath.Join(dir, fmt.Sprintf("m%d", i))
			os.WriteFile(p, []byte(ct), 0o644)
			paths = append(paths, p)
		}
		for _, prog := range []string{"find all 'ab'", "replace all 'b' with 'X'", "find last 2 'a'", "find all 'a'\nfind skip 1 'b'", "replace all 'ab' with ''\nfind all any line end"} {
			for _, sel := range [][]int{{0, 1}, {1, 0}, {0, 1, 2, 3}, {3, 3}, {2, 0}} {
				prog, sel := prog, sel
				if !c.Unit(func() string { return fmt.Sprintf("%s on files %v", prog, sel) }) {
					continue
				}
				v, err, pi := compileSafe(prog)
				if err != nil || pi != nil {
					continue
				}
				var args []string
				for _, i := range sel {
					args = append(args, paths[i])
				}
				var got engine.Matches
				pi = guard(func() { got = v.RunFiles(args, engine.NOTHING, false) })
				rec := map[string]any{"kind": "file-vs-string", "src": prog, "files": sel}
				if pi != nil {
					c.Violation("RUNFILES-PANIC "+pi.Site, fmt.Sprintf("%q on files %v panics: %s", prog, sel, pi.Msg), rec)
					continue
				}
				// expected: for every command, for every file argument in order, the matches of that command alone on the file's bytes
				var want []string
				ncmd := strings.Count(prog, "\n") + 1
				for ci := 0; ci < ncmd; ci++ {
					cv, _, _ := compileSafe(strings.Split(prog, "\n")[ci])
					for _, i := range sel {
						ms, _ := runSafe(cv, contents[i])
						for _, m := range ms {
							m.Filename = paths[i]
							want = append(want, m.Filename+" "+matchRecord(m))
						}
					}
				}
				var g []string
				for _, m := range got {
					g = append(g, m.Filename+" "+matchRecord(m))
				}
				c.Eval(1)
				if len(want) > 0 {
					c.Nontrivial(1)
				}
				if strings.Join(g, "\n") != strings.Join(want, "\n") {
					c.Violation("SEVERAL-FILES", fmt.Sprintf("%q on files %v: %d matches, expected %d (each command on each file in order): got %.300v want %.300v", prog, sel, len(g), len(want), g, want), rec)
				}
			}
		}
	}
	caseNo := 0
	for _, prog := range c07Programs {
		for _, size := range esizes {
			prog, size := prog, size
			if !c.Unit(func() string { return fmt.Sprintf("%s on files of %d bytes", prog, size) }) {
				continue
			}
			if size > 700 && strings.Contains(prog, "at least 0 any 'zz'") {
				continue // a greedy loop keeps one snapshot per byte, each holding a copy of the stack: quadratic memory; the lazy variant covers the large files
			}
			v, err, pi := compileSafe(prog)
			if err != nil || pi != nil {
				c.Violation("COMPILE", fmt.Sprintf("%q rejected", prog), map[string]any{"kind": "compile", "src": prog, "want": "accepted"})
				continue
			}
			// motif positions
			pos := map[int]bool{}
			for _, b := range []int{0, 2048, 4096, 6144, 8192} {
				for d := -3; d <= 3; d++ {
					pos[b+d] = true
				}
			}
			pos[size-2], pos[size-1], pos[size-3] = true, true, true
			var plist []int
			for p := range pos {
				if p >= 0 && p+2 <= size {
					plist = append(plist, p)
				}
			}
			plist = append(plist, -1) // no motif
			sortInts(plist)
			for _, p := range plist {
				b := []byte(strings.Repeat("c", size))
				for i := 300; i < size; i += 1021 {
					b[i] = '\n'
				}
				if p >= 0 {
					b[p], b[p+1] = 'a', 'b'
					if p+3 < size {
						b[p+2] = 'a' // lets the back-reference program match
					}
				}
				if size > 40 && strings.Contains(prog, "'zz'") {
					b[size-1], b[size-2] = 'z', 'y' // greedy loop runs to the end of the file, then backtracks all the way
				}
				if size >= 5 && p >= 0 && p%2 == 1 && p+4 < size {
					copy(b[p+2:], "\xc3\xa9") // a two-byte UTF-8 character right after the motif: sizes are in bytes, not runes
				}
				content := string(b)
				caseNo++
				// four ways of naming the same bytes: the file itself, the directory that holds it,
				// a symbolic link to it, the directory that holds the link
				slot := fmt.Sprint(caseNo % 7)
				plainDir, linkDir := filepath.Join(dir, "p"+slot), filepath.Join(dir, "l"+slot)
				os.MkdirAll(plainDir, 0o755)
				os.MkdirAll(linkDir, 0o755)
				filePath, linkPath := filepath.Join(plainDir, "e"), filepath.Join(linkDir, "lnk")
				os.WriteFile(filePath, b, 0o644)
				if _, err := os.Lstat(linkPath); err != nil {
					os.Symlink(filepath.Join("..", "p"+slot, "e"), linkPath)
				}
				want, pi1 := runSafe(v, content)
				if pi1 != nil {
					continue
				}
				access := []struct{ how, arg, reported string }{
					{"file", filePath, filePath}, {"directory", plainDir, plainDir + "/e"}, {"link", linkPath, linkPath}, {"directory-with-link", linkDir, linkDir + "/lnk"}}
				if size > 4097 && p != plist[0] && p != plist[len(plist)-1] {
					access = access[:1] // the large files take every motif position through the plain path only
				}
				for _, ac := range access {
					path := ac.reported
					c.Eval(1)
					var got engine.Matches
					pi2 := guard(func() { got = v.RunFiles([]string{ac.arg}, engine.NOTHING, false) })
					rec := map[string]any{"kind": "file-vs-string", "src": prog, "size": size, "motif_at": p, "access": ac.how}
					if pi2 != nil {
						c.Violation("RUNFILES-PANIC "+pi2.Site, fmt.Sprintf("%q on a %d-byte file (motif at %d) panics: %s", prog, size, p, pi2.Msg), rec)
						continue
					}
					if len(want) > 0 {
						c.Nontrivial(1)
					}
					w, g := matchRecords(want), matchRecords(got)
					for i := range got {
						if got[i].Filename != path {
							c.Violation("FILENAME", fmt.Sprintf("%q: match reports filename %q for file %q", prog, got[i].Filename, path), rec)
						}
					}
					if strings.Join(w, "\n") != strings.Join(g, "\n") {
						c.Violation("FILE-VS-STRING "+ac.how+" "+strings.Fields(prog)[0]+fmt.Sprint(strings.Count(prog, "\n")+1), fmt.Sprintf("%q on a %d-byte file (motif at %d) named through its %s: file gives %d matches %.200v, string gives %d matches %.200v", prog, size, p, ac.how, len(g), g, len(w), w), rec)
					}
				}
				if caseNo%50 == 0 {
					runtime.GC()
				}
			}
		}
	}
}

func sortInts(a []int) {
	for i := 1; i < len(a); i++ {
		for j := i; j > 0 && a[j-1] > a[j]; j-- {
			a[j-1], a[j] = a[j], a[j-1]
		}
	}
}
