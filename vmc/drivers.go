package main

// Drivers: small sharp alphabets, each explored exhaustively (DESIGN 3.3).

var allLoopKinds = []LoopKind{
	{0, 1, false}, {0, 1, true}, {0, -1, false}, {0, -1, true}, {1, -1, false}, {1, -1, true},
	{2, -1, false}, {0, 2, false}, {1, 2, false}, {2, 2, false},
}

var reducedLoopKinds = []LoopKind{{0, 1, false}, {0, 1, true}, {0, -1, false}, {0, -1, true}, {1, -1, false}, {1, -1, true}}

// D1 control structure
func gramD1() *Gram {
	return &Gram{Atoms: []*T{lit("a"), lit("b"), lit("ab"), class("any", false)}, Loops: allLoopKinds, Or: true}
}

// D1r reduced alphabet, deeper
func gramD1r() *Gram {
	return &Gram{Atoms: []*T{lit("a"), lit("ab")}, Loops: reducedLoopKinds, Or: true}
}

// D2 primitives
func atomsD2() []*T {
	in := func(neg bool, items ...Item) *T { return &T{K: IN, Neg: neg, Items: items} }
	s := func(x string) Item { return Item{K: 0, S: x} }
	rg := func(a, b string) Item { return Item{K: 1, S: a, To: b} }
	cl := func(n string) Item { return Item{K: 2, S: n} }
	var perClass []*T // every character class alone as the only item of `in` and of `not in`
	for _, n := range []string{"any", "digit", "upper", "lower", "letter", "whitespace"} {
		if n != "digit" { // `in digit` alone: already among the lists below as `in digit, '_'`; keep the list short
			perClass = append(perClass, in(false, cl(n)))
		}
		if n != "whitespace" {
			perClass = append(perClass, in(true, cl(n)))
		}
	}
	return append(perClass, []*T{
		lit("a"), lit("A"), lit("ab"), lit("1"), lit(" "), lit("\n"), lit("_"),
		{K: CASELESS, S: "a"}, {K: CASELESS, S: "aB"},
		{K: NOTLIT, S: "a"}, {K: NOTLIT, S: "\n"},
		class("any", false), class("digit", false), class("upper", false), class("lower", false), class("letter", false), class("whitespace", false),
		class("digit", true), class("upper", true), class("lower", true), class("letter", true), class("whitespace", true),
		in(false, s("a"), s("b")), in(false, rg("a", "b")), in(false, s("a"), s("ab")), in(false, s("ab"), s("a")),
		in(false, cl("digit"), s("_")), in(false, cl("upper"), cl("lower")), in(false, Item{K: 3, S: "a"}, rg("0", "1")),
		in(false, s("1"), s("a"), s("ab")), in(false, s("!"), s("ab"), s("a"), s("abA")), in(false, cl("digit"), s("a"), s("a ")),
		in(true, s("a"), s("b")), in(true, rg("a", "z")), in(true, cl("digit"), s(" ")), in(true, cl("whitespace")), in(true, s("\n")),
	}...)
}

const alphaD2 = "aAb1 \n_!"

// D3 anchors
var anchorNames = []string{"file start", "file end", "line start", "line end", "word start", "word end"}

func gramD3() *Gram {
	at := []*T{lit("a"), class("any", false), lit(" "), lit("\n")}
	for _, n := range anchorNames {
		at = append(at, anchor(n, false))
	}
	for _, n := range anchorNames {
		at = append(at, anchor(n, true))
	}
	return &Gram{Atoms: at, Loops: []LoopKind{{0, 1, false}, {0, -1, false}, {0, -1, true}}, Or: false}
}

func textsD3(maxLen int) []string {
	t := texts("a \n", maxLen)
	// a few \r\n layouts for `line end` (footnote **)
	t = append(t, "\r", "a\r", "\r\n", "a\r\n", "a\r\na", "\r\na", "a\ra", "a \r\n a")
	// bytes >= 0x80 are not word characters (the engine works on bytes; so do the documented classes)
	return append(t, "\xe9", "a\xe9", "\xe9a", "a\xc3\xa9 a", "\xaaa \xb5", "a\xff", "\xc0a\xd6", "a \xf8a")
}

// D4 captures / back-references
func gramD4(reduced bool) *Gram {
	g := &Gram{Atoms: []*T{lit("a"), lit("b")}, Or: true, Cap: true, Refs: 2,
		Loops: []LoopKind{{0, 1, false}, {0, 1, true}, {0, -1, false}, {0, -1, true}, {0, 2, false}}}
	if reduced {
		g.Loops = []LoopKind{{0, 1, false}, {0, -1, false}, {0, -1, true}}
	}
	return g
}

// capUnderMinLoop: a capture under a loop with min >= 1 is rejected by the
// code generator ("name clash", unrolling re-declares the name).
func capUnderMinLoop(ts []*T, under bool) bool {
	for _, t := range ts {
		if t.K == CAP && under {
			return true
		}
		u := under || (t.K == LOOP && t.Min >= 1)
		if capUnderMinLoop(t.Kids, u) {
			return true
		}
	}
	return false
}

// ---------------------------------------------------------------- D5 naming

type NamedProg struct {
	Variant string
	Context string
	P       *Prog
}

func gramD5() *Gram {
	return &Gram{Atoms: []*T{lit("a"), lit("b"), lit("ab")}, Or: true,
		Loops: []LoopKind{{0, 1, false}, {0, -1, false}, {0, -1, true}, {1, -1, false}, {0, 2, false}}}
}

var d5Contexts = []string{"bare", "prefix", "suffix", "loop", "orL", "orR", "twice", "thrice-loop", "def-then-exactly2", "def-then-atleast2"}

// place builds the command body for a context; x(i) yields the i-th reference to the body.
func d5Place(ctx string, x func(i int) *T) []*T {
	grp := func(t *T) *T {
		if isLiteralForm(t) {
			return t
		}
		return seq(t)
	}
	switch ctx {
	case "bare":
		return []*T{x(0)}
	case "prefix":
		return []*T{lit("d"), x(0)}
	case "suffix":
		return []*T{x(0), lit("d")}
	case "loop":
		return []*T{loop(0, -1, false, grp(x(0))), lit("d")}
	case "orL":
		return []*T{or(grp(x(0)), lit("d"))}
	case "orR":
		return []*T{or(lit("d"), grp(x(0)))}
	case "twice":
		return []*T{x(0), lit("d"), x(1)}
	case "def-then-exactly2":
		return []*T{x(0), loop(2, 2, false, seq(lit("d"), x(1)))}
	case "def-then-atleast2":
		return []*T{x(0), loop(2, -1, false, seq(loop(0, 1, false, lit("d")), x(1))), lit("d")}
	case "thrice-loop":
		return []*T{x(0), loop(0, 1, false, grp(x(1))), or(lit("d"), grp(x(2)))}
	}
	panic(ctx)
}

var d5Variants = []string{"inline", "subdef", "global", "global-nested", "global-pred-true"}

func d5Build(variant, ctx string, body []*T) *Prog {
	switch variant {
	case "inline":
		return &Prog{Body: d5Place(ctx, func(i int) *T { return seq(body...) })}
	case "subdef":
		return &Prog{Body: d5Place(ctx, func(i int) *T {
			if i == 0 {
				return &T{K: SUBDEF, S: "s", Kids: body}
			}
			return &T{K: CALL, S: "s"}
		})}
	case "global":
		return &Prog{Defs: []*GDef{{Name: "s", Body: body}}, Body: d5Place(ctx, func(i int) *T { return &T{K: GLOBAL, S: "s"} })}
	case "global-nested":
		return &Prog{Defs: []*GDef{{Name: "q", Body: body}, {Name: "s", Body: []*T{{K: GLOBAL, S: "q"}}}},
			Body: d5Place(ctx, func(i int) *T { return &T{K: GLOBAL, S: "s"} })}
	case "global-pred-true":
		return &Prog{Defs: []*GDef{{Name: "s", Body: body, Pred: "return true", PredFn: func(string) bool { return true }}},
			Body: d5Place(ctx, func(i int) *T { return &T{K: GLOBAL, S: "s"} })}
	}
	panic(variant)
}

// fixed D5 extras: predicates that depend on the match (only where "match" is
// unambiguous: the pattern use starts the command body and is its only use) and
// guarded recursion, inline and inside a relocated global.
func d5Extras() []NamedProg {
	var out []NamedProg
	g := func(n string) *T { return &T{K: GLOBAL, S: n} }
	call := func(n string) *T { return &T{K: CALL, S: n} }
	sub := func(n string, k ...*T) *T { return &T{K: SUBDEF, S: n, Kids: k} }
	preds := []struct {
		src string
		fn  func(string) bool
	}{
		{"return false", func(string) bool { return false }},
		{"return match == 'a'", func(m string) bool { return m == "a" }},
		{"return match != 'ab'", func(m string) bool { return m != "ab" }},
		{"return matchLength > 1", func(m string) bool { return len(m) > 1 }},
		{"if matchLength == 2 then return false end return true", func(m string) bool { return len(m) != 2 }},
	}
	bodies := [][]*T{
		{loop(1, -1, false, lit("a"))}, {loop(0, -1, false, class("any", false))}, {loop(1, -1, true, class("any", false))},
		{or(lit("a"), lit("ab"))}, {or(lit("ab"), lit("a"))}, {lit("a"), loop(0, 1, false, lit("b"))}, {loop(0, 2, false, or(lit("a"), lit("b")))},
	}
	for bi, b := range bodies {
		for pi, pr := range preds {
			for _, ctx := range []string{"bare", "suffix"} {
				out = append(out, NamedProg{Variant: "global-pred-" + string(rune('0'+pi)), Context: ctx + "/" + string(rune('0'+bi)),
					P: &Prog{Defs: []*GDef{{Name: "s", Body: b, Pred: pr.src, PredFn: pr.fn}}, Body: d5Place(ctx, func(int) *T { return g("s") })}})
			}
		}
	}
	// a stored pattern used by two commands of one source, at different positions
	for bi, b := range bodies {
		for _, lay := range []struct {
			name      string
			pre, main []*T
		}{
			{"two-commands/prefix-then-suffix", []*T{lit("d"), g("s")}, []*T{g("s"), lit("d")}},
			{"two-commands/same-position", []*T{g("s")}, []*T{g("s"), lit("b")}},
			{"two-commands/twice-then-once", []*T{g("s"), lit("d"), g("s")}, []*T{lit("b"), g("s")}},
		} {
			out = append(out, NamedProg{Variant: lay.name, Context: string(rune('0' + bi)),
				P: &Prog{Defs: []*GDef{{Name: "s", Body: b}}, Pre: lay.pre, Body: lay.main}})
		}
	}
	// guarded recursion
	recs := [][]*T{
		{sub("r", lit("a"), loop(0, 1, false, call("r")), lit("b"))},
		{sub("r", lit("a"), or(call("r"), lit("b")))},
		{sub("r", lit("a"), loop(0, 2, false, call("r")), lit("d"))},
		{sub("r", lit("a"), loop(0, 1, true, call("r")), lit("b")), lit("d")},
		{lit("d"), sub("r", lit("a"), loop(0, 1, false, call("r")), lit("b")), call("r")},
		{sub("r", or(lit("b"), seq(lit("a"), call("r"), lit("a"))))},
		{sub("r", lit("a"), loop(0, -1, false, seq(lit("b"), call("r")))), lit("d")},
	}
	for i, b := range recs {
		out = append(out, NamedProg{Variant: "recursion-inline", Context: string(rune('0' + i)), P: &Prog{Body: b}})
		out = append(out, NamedProg{Variant: "recursion-in-global", Context: string(rune('0' + i)),
			P: &Prog{Defs: []*GDef{{Name: "p", Body: b}}, Body: []*T{g("p")}}})
		out = append(out, NamedProg{Variant: "recursion-in-global-prefix", Context: string(rune('0' + i)),
			P: &Prog{Defs: []*GDef{{Name: "p", Body: b}}, Body: []*T{loop(0, 1, false, lit("d")), g("p"), lit("d")}}})
		out = append(out, NamedProg{Variant: "recursion-in-global-twice", Context: string(rune('0' + i)),
			P: &Prog{Defs: []*GDef{{Name: "p", Body: b}}, Body: []*T{g("p"), loop(0, 1, false, g("p"))}}})
	}
	return out
}

// D7r: guarded recursion whose consuming prefix is each consuming primitive in
// turn ("subroutines consume at least one byte before they recurse").
func d7rPrograms() []*Prog {
	call := func(n string) *T { return &T{K: CALL, S: n} }
	sub := func(n string, k ...*T) *T { return &T{K: SUBDEF, S: n, Kids: k} }
	var out []*Prog
	for _, x := range atomsD2() {
		out = append(out, &Prog{Body: []*T{sub("r", x, loop(0, 1, false, call("r")))}})
		out = append(out, &Prog{Body: []*T{sub("r", x, loop(0, -1, false, call("r")))}})
		out = append(out, &Prog{Body: []*T{sub("r", x, or(call("r"), lit("b")))}})
		out = append(out, &Prog{Body: []*T{sub("r", x, loop(0, 1, true, call("r"))), lit("!")}})
		out = append(out, &Prog{Defs: []*GDef{{Name: "p", Body: []*T{sub("r", x, loop(0, 1, false, call("r")))}}}, Body: []*T{{K: GLOBAL, S: "p"}, loop(0, 1, false, &T{K: GLOBAL, S: "p"})}})
	}
	return out
}
