package main

// Reference semantics of the process language (transforms / predicates),
// written from docs/language/LanguageDetails.md "Type Coersion" and "Statement
// Type Requirements": an expression tree, a type checker and an evaluator.

import (
	"strconv"
	"strings"
)

type PT int

const (
	TStr PT = iota
	TNum
	TBool
	TErr
)

func (t PT) String() string {
	if t < 0 || t > TErr {
		return "dontcare"
	}
	return [...]string{"string", "number", "bool", "error"}[t]
}

type PV struct {
	T PT
	S string
	N int
	B bool
}

func pvS(s string) PV { return PV{T: TStr, S: s} }
func pvN(n int) PV    { return PV{T: TNum, N: n} }
func pvB(b bool) PV   { return PV{T: TBool, B: b} }

func (v PV) str() string {
	switch v.T {
	case TStr:
		return v.S
	case TNum:
		return strconv.Itoa(v.N)
	}
	if v.B {
		return "true"
	}
	return "false"
}

func (v PV) num() int {
	switch v.T {
	case TStr:
		n, err := strconv.Atoi(v.S)
		if err != nil {
			return 0
		}
		return n
	case TNum:
		return v.N
	}
	if v.B {
		return 1
	}
	return 0
}

func (v PV) boolean() bool {
	switch v.T {
	case TStr:
		return len(v.S) != 0
	case TNum:
		return v.N != 0
	}
	return v.B
}

// PE: expression tree. Op=="" -> leaf.
type PE struct {
	Op   string // binary: + - * / % == != < > <= >= and or ; unary: not head tail
	L, R *PE
	Src  string // leaf source text
	Val  func(env map[string]PV) PV
	Typ  PT // static type of a leaf
}

func leafNum(n int) *PE {
	return &PE{Src: strconv.Itoa(n), Typ: TNum, Val: func(map[string]PV) PV { return pvN(n) }}
}
func leafStr(s string) *PE {
	return &PE{Src: quote(s), Typ: TStr, Val: func(map[string]PV) PV { return pvS(s) }}
}
func leafBool(b bool) *PE {
	return &PE{Src: strconv.FormatBool(b), Typ: TBool, Val: func(map[string]PV) PV { return pvB(b) }}
}

// leafVar: a variable with a given static type (unset names are strings, "")
func leafVar(name string, t PT) *PE {
	return &PE{Src: name, Typ: t, Val: func(env map[string]PV) PV {
		if v, ok := env[name]; ok {
			return v
		}
		return pvS("")
	}}
}

func bin(op string, l, r *PE) *PE { return &PE{Op: op, L: l, R: r} }
func un(op string, x *PE) *PE     { return &PE{Op: op, R: x} }

var arithOps = map[string]bool{"+": true, "-": true, "*": true, "/": true, "%": true}
var cmpOps = map[string]bool{"==": true, "!=": true, "<": true, ">": true, "<=": true, ">=": true}

// dontCare is returned by typeOf for the cells the table can be read either way on.
const TDontCare PT = 99

// typeOf: static type per the documented table (TErr = rejected).
func typeOf(e *PE) PT {
	if e.Op == "" {
		return e.Typ
	}
	if e.L == nil { // unary
		x := typeOf(e.R)
		if x == TErr || x == TDontCare {
			return x
		}
		switch e.Op {
		case "not":
			if x == TBool {
				return TBool
			}
		case "head", "tail":
			if x == TStr {
				return TStr
			}
		}
		return TErr
	}
	l, r := typeOf(e.L), typeOf(e.R)
	if l == TErr || r == TErr {
		return TErr
	}
	if l == TDontCare || r == TDontCare {
		return TDontCare
	}
	switch l {
	case TStr:
		if e.Op == "+" {
			return TStr
		}
		if cmpOps[e.Op] {
			return TBool
		}
		if arithOps[e.Op] && r == TNum { // `_number_ - number`: left coerced
			return TNum
		}
	case TBool:
		if e.Op == "and" || e.Op == "or" || cmpOps[e.Op] {
			return TBool
		}
		if arithOps[e.Op] && e.Op != "+" && r == TNum {
			return TDontCare // italic-number row: a bool could be coerced as well
		}
	case TNum:
		if cmpOps[e.Op] {
			return TBool
		}
		if arithOps[e.Op] {
			return TNum
		}
	}
	return TErr
}

type evalErr struct{ msg string }

// evalPE evaluates per the table: the left operand's dynamic type selects the
// operation, the right operand is coerced to it. ok=false on division by zero.
func evalPE(e *PE, env map[string]PV) (PV, bool) {
	if e.Op == "" {
		return e.Val(env), true
	}
	if e.L == nil {
		x, ok := evalPE(e.R, env)
		if !ok {
			return x, false
		}
		switch e.Op {
		case "not":
			return pvB(!x.boolean()), true
		case "head":
			s := x.str()
			if len(s) == 0 {
				return pvS(""), true
			}
			return pvS(s[:1]), true
		default:
			s := x.str()
			if len(s) <= 1 {
				return pvS(""), true
			}
			return pvS(s[1:]), true
		}
	}
	l, ok := evalPE(e.L, env)
	if !ok {
		return l, false
	}
	r, ok := evalPE(e.R, env)
	if !ok {
		return r, false
	}
	arith := func(a, b int) (PV, bool) {
		switch e.Op {
		case "+":
			return pvN(a + b), true
		case "-":
			return pvN(a - b), true
		case "*":
			return pvN(a * b), true
		case "/":
			if b == 0 {
				return PV{}, false
			}
			return pvN(a / b), true
		default:
			if b == 0 {
				return PV{}, false
			}
			return pvN(a % b), true
		}
	}
	cmpInt := func(a, b int) PV {
		switch e.Op {
		case "==":
			return pvB(a == b)
		case "!=":
			return pvB(a != b)
		case "<":
			return pvB(a < b)
		case ">":
			return pvB(a > b)
		case "<=":
			return pvB(a <= b)
		}
		return pvB(a >= b)
	}
	switch l.T {
	case TStr:
		if e.Op == "+" {
			return pvS(l.S + r.str()), true
		}
		if cmpOps[e.Op] {
			return cmpInt(strings.Compare(l.S, r.str()), 0), true
		}
		return arith(l.num(), r.num())
	case TBool:
		lb, rb := 0, 0
		if l.B {
			lb = 1
		}
		if r.boolean() {
			rb = 1
		}
		switch e.Op {
		case "and":
			return pvB(l.B && r.boolean()), true
		case "or":
			return pvB(l.B || r.boolean()), true
		}
		return cmpInt(lb, rb), true
	default:
		if cmpOps[e.Op] {
			return cmpInt(l.N, r.num()), true
		}
		return arith(l.N, r.num())
	}
}

var precOf = map[string]int{"and": 1, "or": 1, "==": 2, "!=": 2, "<": 3, ">": 3, "<=": 3, ">=": 3, "+": 4, "-": 4, "*": 5, "/": 5, "%": 5}

// renderFull: fully parenthesised.
func (e *PE) renderFull() string {
	if e.Op == "" {
		return e.Src
	}
	if e.L == nil {
		return "(" + e.Op + " " + e.R.renderFull() + ")"
	}
	return "(" + e.L.renderFull() + " " + e.Op + " " + e.R.renderFull() + ")"
}

// renderMin: minimal parentheses under the documented precedence (left-assoc).
func (e *PE) renderMin() string {
	if e.Op == "" {
		return e.Src
	}
	if e.L == nil {
		inner := e.R.renderMin()
		if e.R.Op != "" && e.R.L != nil {
			inner = "(" + inner + ")"
		}
		return e.Op + " " + inner
	}
	p := precOf[e.Op]
	l := e.L.renderMin()
	if e.L.Op != "" && e.L.L != nil && precOf[e.L.Op] < p {
		l = "(" + l + ")"
	}
	r := e.R.renderMin()
	if e.R.Op != "" && e.R.L != nil && precOf[e.R.Op] <= p {
		r = "(" + r + ")"
	}
	return l + " " + e.Op + " " + r
}
