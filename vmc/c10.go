package main

import (
	"fmt"
	"strings"
)

// D7: nullable bodies — the programs whose termination depends on the
// zero-width-iteration guard.
func gramD7() *Gram {
	at := []*T{lit("a"), {K: SEQ}, anchor("line start", false), anchor("file end", false), anchor("word end", true), anchor("line end", false),
		{K: IN, Neg: true, Items: []Item{{K: 0, S: "a"}}}, anchor("word start", true)}
	return &Gram{Atoms: at, Or: true,
		Loops: []LoopKind{{0, 1, false}, {0, 1, true}, {0, -1, false}, {0, -1, true}, {0, 2, false}, {0, 2, true}, {1, -1, false}, {2, 2, false}}}
}

func d7Fixed() []*Prog {
	call := func(n string) *T { return &T{K: CALL, S: n} }
	sub := func(n string, k ...*T) *T { return &T{K: SUBDEF, S: n, Kids: k} }
	g := func(n string) *T { return &T{K: GLOBAL, S: n} }
	a := lit("a")
	star := func(t *T) *T { return loop(0, -1, false, t) }
	opt := func(t *T) *T { return loop(0, 1, false, t) }
	ls := anchor("line start", false)
	var out []*Prog
	bodies := [][]*T{
		{star(seq(star(a), star(a))), lit("c")},
		{star(seq(opt(a), opt(ls)))},
		{star(star(star(seq())))},
		{sub("r", a, opt(call("r")), star(opt(ls)))},
		{sub("r", a, star(seq(opt(call("r")))))},
		{star(seq(sub("s", opt(a)))), call("s")},
		{star(seq(capt(opt(a), "x"), ref("x")))},
		{star(&T{K: IN, Neg: true, Items: []Item{{K: 0, S: "a"}, {K: 0, S: "\n"}}})},
		{loop(1, -1, false, star(seq(ls, opt(a))))},
		{star(or(seq(), a)), a},
		{star(or(ls, seq(a, ls))), a},
		{loop(2, -1, true, opt(a)), anchor("file end", false)},
		{capt(opt(a), "x"), lit("b"), star(ref("x"))},
		{capt(opt(a), "x"), star(ref("x")), lit("b")},
		{capt(star(a), "x"), lit("b"), loop(1, -1, false, ref("x")), lit("b")},
		{capt(seq(), "x"), loop(0, -1, true, ref("x")), a},
	}
	for _, b := range bodies {
		out = append(out, &Prog{Body: b})
	}
	out = append(out, &Prog{Defs: []*GDef{{Name: "p", Body: []*T{opt(a)}}}, Body: []*T{star(seq(g("p"))), g("p")}})
	out = append(out, &Prog{Defs: []*GDef{{Name: "p", Body: []*T{star(opt(a))}}}, Body: []*T{star(seq(g("p"), ls))}})
	// a stored pattern that uses another stored pattern twice (the second use is a call into the
	// relocated copy of the first), everything nullable; an inline subroutine inside a stored pattern
	nested := []*GDef{{Name: "p", Body: []*T{opt(a)}}, {Name: "pp", Body: []*T{g("p"), g("p")}}}
	for _, b := range [][]*T{{lit("\n"), g("pp")}, {g("pp"), lit("\n")}, {lit("\n"), g("pp"), g("pp")}, {star(seq(g("pp"), ls)), a}, {lit("\n"), star(g("pp"))}} {
		out = append(out, &Prog{Defs: nested, Body: b})
	}
	inl := []*GDef{{Name: "q", Body: []*T{sub("s", opt(a)), opt(ls), call("s")}}}
	for _, b := range [][]*T{{lit("\n"), g("q")}, {lit("\n"), g("q"), g("q")}, {star(seq(g("q"))), lit("\n")}} {
		out = append(out, &Prog{Defs: inl, Body: b})
	}
	return out
}

// replace commands whose `with` list names things that are not text bound by the match: the
// replacer's own instruction loop must still come to an end
var c10Replacers = []string{
	"replace all at least 1 (any = c) named ds with ds", "replace all 'a' with nope", "replace all ('a' = x) or '\\n' with x", "replace all maybe ('a' = x) any with x x",
	"replace all 'a' with nope 'b' nope", "replace all at least 1 (any = c) named ds with c ds 'x'", "replace all any with", "replace all 'a' with ''",
	"set t to transform return nope end\nreplace all 'a' with t", "set t to transform return 1 end\nreplace all at least 1 'a' named l with l t l",
}

var d7Named = []string{
	"at least 1 (maybe 'a') named r", "at least 2 (line start) named r 'a'", "at least 0 (at least 1 (maybe 'a') named i) named o",
	"between 1 and 2 (at least 0 line start) named r", "at least 1 (not in 'a') named n", "at least 1 (maybe ('a' = x)) named r x",
	"@/(a?)b\\1*/", "@/(a*)(b?)(?:\\1\\2)*c/", "@/(?<n>a?)\\k<n>+b/",
	"at least 1 whole line", "at least 0 (whole word or 'a')", "at least 0 (not whole file)", "at least 0 @/a*/", "@/(a*)*/", "@/(a?|\\b)+x/", "@/(^|a)*$/",
}

// bounded process-code loops (every one exits after at most matchLength+3 passes)
var c10ProcessLoops = []string{
	"set i to 0 loop set i to i + 1 if i < 3 then continue end break end return i ",
	"set i to 0 set s to '' loop if i >= matchLength then break end set i to i + 1 if i % 2 == 0 then continue end set s to s + 'x' end return s ",
	"set i to 0 loop set i to i + 1 loop if i > 1 then break end set i to i + 1 continue end if i < 5 then continue end break end return i ",
	"set i to 0 loop set i to i + 1 if i < 4 then continue else break end end return i ",
	"set i to 5 loop set i to i - 1 if i > 0 then if i % 2 == 1 then continue end end if i <= 0 then break end end return i ",
	"set s to match loop if s == '' then break end set s to tail s continue end return s ",
}

const stepBudgetC10 = 5_000_000

func init() {
	register(&Check{
		ID:    "C10",
		Level: "model_checking",
		Rule: "the deterministic VM is run to completion under a step monitor (hook H1 counts executed instructions = transitions of the VM configuration sequence) on every nullable-body program of <= n nodes over {'a', (), line start, file end, not word end, not word start, line end, not in 'a'} x {maybe, at least 0, at most 2 (greedy and fewest), at least 1, exactly 2} x or/groups, plus fixed nested/recursive/named-loop programs (incl. stored patterns using stored patterns twice) and replace commands whose `with` list names loops, unbound names and captures of untaken alternatives (the replacer's own instruction loop is covered by the CPU-time watchdog), x every text over {a,\\n} up to length 4 and six texts with bytes >= 0x80 (lone continuation bytes, a 2-byte character, 0xff); " +
			fmt.Sprintf("a run that executes more than %d instructions or makes no progress for 20 s is a violation; states = executed VM configurations, transitions = instructions executed; non-trivial = runs whose program has a loop with a nullable body", stepBudgetC10),
		Assume: []string{"budget is ~500x above the largest legitimate step count of the enumerated scope (reported as maxima.vm_steps_per_run)", "loops outside the VM instruction loop are covered by the 20 s per-unit watchdog only"},
		Budget: map[string]int{"quick": 150, "thorough": 1500},
		Run:    runC10,
		Post: func(a *Agg, cov map[string]any) {
			cov["states"] = a.Counters["vm_steps"] + a.Counters["runs"]
			cov["transitions"] = a.Counters["vm_steps"]
			cov["traces_validated_against_impl"] = a.Counters["runs"]
			cov["explanation"] = "explored directly on the implementation (no separate model): every run IS an implementation trace"
			if a.Maxes["vm_steps_per_run"] > stepBudgetC10/20 {
				cov["margin_low"] = true
			}
		},
	})
}

func termUnit(c *Ctx, src string, txts []string, nullable bool) {
	v, err, pi := compileSafe(src)
	if pi != nil || err != nil {
		c.Count("rejected_sources", 1)
		return
	}
	for _, t := range txts {
		c.Eval(1)
		if nullable {
			c.Nontrivial(1)
		}
		stepCount, stepBudget = 0, stepBudgetC10
		_, pi := runSafe(v, t)
		stepBudget = 0
		c.Count("vm_steps", stepCount)
		c.Count("runs", 1)
		c.Max("vm_steps_per_run", stepCount)
		c.Outcome(fmt.Sprint(stepCount))
		if stepCount > 2000 {
			c.Sample(map[string]any{"program": src, "text": t, "vm_instructions": stepCount})
		}
		if pi != nil && pi.Site == "STEP-BUDGET" {
			c.Violation("NONTERMINATION step budget", fmt.Sprintf("%q on %q: more than %d VM instructions", src, t, stepBudgetC10),
				map[string]any{"kind": "steps", "src": src, "text": t, "budget": stepBudgetC10})
			c.Expensive()
			return
		}
		if pi != nil {
			c.Count("run_panics_left_to_C09", 1)
		}
	}
}

func hasNullableLoop(ts []*T) bool {
	for _, t := range ts {
		if t.K == LOOP && nullableT(t.Kids[0]) {
			return true
		}
		if hasNullableLoop(t.Kids) {
			return true
		}
	}
	return false
}

func nullableT(t *T) bool {
	switch t.K {
	case ANCHOR:
		return true
	case SEQ, SUBDEF:
		for _, k := range t.Kids {
			if !nullableT(k) {
				return false
			}
		}
		return true
	case OR:
		return nullableT(t.Kids[0]) || nullableT(t.Kids[1])
	case LOOP:
		return t.Min == 0 || nullableT(t.Kids[0])
	case CAP:
		return nullableT(t.Kids[0])
	case REF, CALL, GLOBAL:
		return true
	}
	return false
}

func runC10(c *Ctx) {
	installStepHook()
	defer flushInstKinds(c)
	// bytes that cannot start a UTF-8 sequence, and a character cut in two: the scan steps over any byte
	txts := append(texts("a\n", 4), "a\x80a", "\x80", "1\xc3\xa92", "\xa3a", "\xff\xfe", "a\xf8")
	g := gramD7()
	for n := 1; n <= c.Pick(4, 5); n++ {
		if !c.Level("D7:n=" + itoa(n)) {
			return
		}
		for _, body := range g.Seqs(n) {
			src := "find all " + renderSeq(body)
			if c.Unit(func() string { return src }) {
				c.Count("programs", 1)
				termUnit(c, src, txts, hasNullableLoop(body))
			}
		}
	}
	g4 := gramD4(false)
	for n := 2; n <= c.Pick(5, 5); n++ {
		if !c.Level("D4:n=" + itoa(n)) {
			return
		}
		for _, raw := range g4.Seqs(n) {
			body := instantiate(raw, true)
			if body == nil {
				continue
			}
			src := "find all " + renderSeq(body)
			if c.Unit(func() string { return src }) {
				c.Count("programs", 1)
				termUnit(c, src, texts("ab", 4), hasNullableLoop(body))
			}
		}
	}
	if c.Level("process-code loops") {
		for _, body := range c10ProcessLoops {
			for _, kind := range []string{"transform", "predicate"} {
				src := "set f to transform " + body + " end\nreplace all at least 1 any with f"
				if kind == "predicate" {
					src = "set p to pattern at least 1 any begin " + body + " return true end\nfind all p"
					src = strings.Replace(src, "return i ", "set r to i ", -1)
					src = strings.Replace(src, "return s ", "set r to s ", -1)
				}
				if c.Unit(func() string { return src }) {
					c.Count("programs", 1)
					termUnit(c, src, []string{"a", "abc", "12345678"}, true)
				}
			}
		}
	}
	if c.Level("D7r:recursion") {
		t2 := texts(alphaD2, 3)
		for _, p := range d7rPrograms() {
			src := p.Source("find all")
			if c.Unit(func() string { return src }) {
				c.Count("programs", 1)
				termUnit(c, src, t2, true)
			}
		}
	}
	if c.Level("D7:fixed") {
		long := append(texts("a\n", 5), "aaaaaa", "a\na\na\n", "aaa\n\n\naaa", "a\x80a", "1\xc3\xa92", "\xa35 a", "\xff", "a\xf8\x80", "\xc3\xa9\n\xbf")
		for _, p := range d7Fixed() {
			src := p.Source("find all")
			if c.Unit(func() string { return src }) {
				c.Count("programs", 1)
				termUnit(c, src, long, true)
			}
		}
		for _, b := range d7Named {
			src := "find all " + b
			if c.Unit(func() string { return src }) {
				c.Count("programs", 1)
				termUnit(c, src, long, true)
			}
		}
	}
	if c.Level("replacers") {
		long := append(texts("a\n", 4), "aaaaaa", "a\na\na\n")
		for _, src := range c10Replacers {
			src := src
			if c.Unit(func() string { return src }) {
				c.Count("programs", 1)
				termUnit(c, src, long, true)
			}
		}
	}
}
