package main

import (
	"fmt"
	"time"
)

func init() {
	extraCmds["probe"] = func(args []string) {
		installStepHook()
		v, err, pi := compileSafe(args[0])
		fmt.Println("compile:", err, pi)
		if v == nil {
			return
		}
		for _, b := range []int64{100000, 300000, 1000000} {
			stepCount, stepBudget = 0, b
			t0 := time.Now()
			ms, pi := runSafe(v, args[1])
			fmt.Printf("budget %d: steps=%d matches=%s panic=%v in %v\n", b, stepCount, fmtSpans(spansOf(ms), true), pi, time.Since(t0))
		}
	}
}
