package main

import (
	"fmt"
	"time"
)

func init() {
	extraCmds["probe"] = func(args []string) {
		installStepHook()
		v, err, pi := compileSafe(args[0])
		fmt.Println("compile:", err, pi)
		if v == nil {
			return
		}
		for _, b := range []int64{100000, 300000, 1000000} {
			stepCount, stepBudget = 0, b
			t0 := time.Now()
			ms, pi := runSafe(v, args[1])
			fmt.Printf("budget %d: steps=%d matches=%s panic=%v in %v\n", b, stepCount, fmtSpans(spansOf(ms), true), pi, time.Since(t0))
		}
	}
}

func init() {
	extraCmds["c15time"] = func(args []string) {
		installStepHook()
		for _, p := range corpusPrograms() {
			t0 := time.Now()
			c15Eval(p)
			d := time.Since(t0)
			if d > 5*time.Millisecond {
				fmt.Printf("%8.1fms tokens=%d %.60q\n", float64(d.Microseconds())/1000, len(vtokens(p)), p)
			}
		}
	}
}
