// racepass: the C19 scenario bodies free-running under the Go race detector.
// Supporting evidence only: a report is a true positive, silence proves nothing
// (the cooperative scheduler of the deciding check hands control over through
// channels, which are happens-before edges and blind the detector, so this pass
// runs the same calls on real OS threads instead).
package main

import (
	"fmt"
	"os"
	"strconv"
	"strings"
	"sync"

	"github.com/jmeaster30/vore/libvore"
)

const (
	srcGroupsA = "find all @/(a)(b)?/"
	srcGroupsB = "find all @/((a)|(1))( )?/ find all @/(b)\\1/"
	srcPlain   = "find all 'a' maybe 'b'"
	srcShared  = "set p to pattern 'a' or 'ab'\nfind all p in 'b', '1' maybe p\nfind all at most 2 (p = x) x"
)

const srcSharedProc = "set lim to transform set n to 1 + 1 set m to 'x' + 'y' if 2 > 1 then set n to n * 1 end if matchLength >= 3 - 1 then return 'L' + n end return match + m end\n" +
	"set p to pattern at least 1 'a' begin set k to 2 * 2 return matchLength < k - 1 end\nreplace all p with lim '.'\nfind all p 'b'"

var srcLongReads = "find all whole file\nfind all '" + strings.Repeat("c", 70) + "' any"

func main() {
	iters := 200
	if len(os.Args) > 1 {
		iters, _ = strconv.Atoi(os.Args[1])
	}
	shared, err := libvore.Compile(srcShared)
	if err != nil {
		fmt.Println("compile failed:", err)
		os.Exit(2)
	}
	bodies := []func(){
		func() { libvore.Compile(srcGroupsA) },
		func() { libvore.Compile(srcGroupsB) },
		func() { libvore.Compile(srcPlain) },
		func() {
			libvore.Compile("set f to transform set v to 1 set w to 'q' return v * 2 end\nreplace all 'a' with f")
		},
		func() {
			libvore.Compile("set g to transform set v to 'x' return head v end\nset p to pattern 'a' begin set k to matchLength return k == 1 end\nreplace all p with g")
		},
		func() {
			if _, err := libvore.Compile("find all 'abc"); err != nil {
				_ = err.Error()
			}
		},
		func() {
			if _, err := libvore.Compile("find all 'a' \"xyz"); err != nil {
				_ = err.Error()
			}
		},
		func() { libvore.Compile(srcShared) },
		func() { shared.Run("abab") },
		func() { shared.Run("a1a ab1") },
		func() {
			v, err := libvore.Compile(srcGroupsA)
			if err == nil {
				v.Run("ab a")
			}
		},
	}
	nfixed := len(bodies)
	for it := 0; it < iters; it++ {
		// programs that are run for the first time concurrently (whatever the first Run initialises or
		// caches inside the program is then written while another Run reads it), and long reads
		bodies = bodies[:nfixed]
		if fresh, err := libvore.Compile(srcSharedProc); err == nil {
			bodies = append(bodies, func() { fresh.Run("aab a") }, func() { fresh.Run("a aaa") })
		}
		if lr, err := libvore.Compile(srcLongReads); err == nil {
			bodies = append(bodies, func() { lr.Run(strings.Repeat("c", 70) + "x") }, func() { lr.Run(strings.Repeat("c", 70) + "yy") })
		}
		if rp, err := libvore.Compile("replace all 'ab' with 'X'"); err == nil {
			bodies = append(bodies, func() { rp.Run("ab" + strings.Repeat("-", 80) + "ab" + strings.Repeat("=", 70)) }, func() { rp.Run(strings.Repeat("+", 66) + "ab" + strings.Repeat("~", 90)) })
		}
		var wg sync.WaitGroup
		for _, b := range bodies {
			wg.Add(1)
			go func(f func()) {
				defer wg.Done()
				defer func() { recover() }()
				f()
			}(b)
		}
		wg.Wait()
	}
	fmt.Println("racepass: no report in", iters, "iterations of", len(bodies), "concurrent calls")
}
