// racepass: the C19 scenario bodies free-running under the Go race detector.
// Supporting evidence only: a report is a true positive, silence proves nothing
// (the cooperative scheduler of the deciding check hands control over through
// channels, which are happens-before edges and blind the detector, so this pass
// runs the same calls on real OS threads instead).
package main

import (
	"fmt"
	"os"
	"strconv"
	"sync"

	"github.com/jmeaster30/vore/libvore"
)

const (
	srcGroupsA = "find all @/(a)(b)?/"
	srcGroupsB = "find all @/((a)|(1))( )?/ find all @/(b)\\1/"
	srcPlain   = "find all 'a' maybe 'b'"
	srcShared  = "set p to pattern 'a' or 'ab'\nfind all p in 'b', '1' maybe p\nfind all at most 2 (p = x) x"
)

func main() {
	iters := 200
	if len(os.Args) > 1 {
		iters, _ = strconv.Atoi(os.Args[1])
	}
	shared, err := libvore.Compile(srcShared)
	if err != nil {
		fmt.Println("compile failed:", err)
		os.Exit(2)
	}
	bodies := []func(){
		func() { libvore.Compile(srcGroupsA) },
		func() { libvore.Compile(srcGroupsB) },
		func() { libvore.Compile(srcPlain) },
		func() { libvore.Compile("set f to transform set v to 1 set w to 'q' return v * 2 end\nreplace all 'a' with f") },
		func() { libvore.Compile("set g to transform set v to 'x' return head v end\nset p to pattern 'a' begin set k to matchLength return k == 1 end\nreplace all p with g") },
		func() {
			if _, err := libvore.Compile("find all 'abc"); err != nil {
				_ = err.Error()
			}
		},
		func() {
			if _, err := libvore.Compile("find all 'a' \"xyz"); err != nil {
				_ = err.Error()
			}
		},
		func() { libvore.Compile(srcShared) },
		func() { shared.Run("abab") },
		func() { shared.Run("a1a ab1") },
		func() {
			v, err := libvore.Compile(srcGroupsA)
			if err == nil {
				v.Run("ab a")
			}
		},
	}
	for it := 0; it < iters; it++ {
		var wg sync.WaitGroup
		for _, b := range bodies {
			wg.Add(1)
			go func(f func()) {
				defer wg.Done()
				defer func() { recover() }()
				f()
			}(b)
		}
		wg.Wait()
	}
	fmt.Println("racepass: no report in", iters, "iterations of", len(bodies), "concurrent calls")
}
