//go:build c19

package main

// C19 worker side (overlay build only): cooperative scheduler, deviation-bounded
// DFS over schedules, vector-clock race check, scenarios.

import (
	"encoding/json"
	"fmt"
	"os"
	"os/exec"
	"sort"
	"strings"
	"time"
	"unsafe"

	"github.com/jmeaster30/vore/libvore"
	"github.com/jmeaster30/vore/libvore/algo"
	"github.com/jmeaster30/vore/libvore/ast"
	"github.com/jmeaster30/vore/libvore/bytecode"
	"github.com/jmeaster30/vore/libvore/ds"
	"github.com/jmeaster30/vore/libvore/engine"
	"github.com/jmeaster30/vore/libvore/files"
)

func init() {
	c19Run = runC19
	extraCmds["c19replay"] = c19Replay
	extraCmds["c19alone"] = c19Alone
	extraCmds["c19cold"] = c19Cold
}

// c19Alone executes ONE call of a scenario as the only call of a fresh process and prints its observation.
func c19Alone(args []string) {
	var idx int
	fmt.Sscan(args[1], &idx)
	for _, sc := range c19Scenarios() {
		if sc.name == args[0] {
			bodies, finish := sc.threads(sc.setup())
			func() {
				defer func() { recover() }()
				bodies[idx]()
			}()
			b, _ := json.Marshal(finish()[idx])
			os.NewFile(3, "res").Write(b)
			return
		}
	}
}

// c19Cold executes ONE schedule of a scenario (thread `first` starts, no further preemption) as the
// first thing a fresh process does: state that the library initialises or grows lazily on first use
// (caches, tables, pools) is then still cold, which it never is again in the explorer's own process.
func c19Cold(args []string) {
	var first int
	fmt.Sscan(args[1], &first)
	installC19Hooks()
	for _, sc := range c19Scenarios() {
		if sc.name == args[0] {
			poolMisuse = 0
			bodies, finish := sc.threads(sc.setup())
			var prefix []int
			if first > 0 {
				prefix = []int{first}
			}
			x := runSchedule(bodies, prefix)
			out := map[string]any{"obs": finish(), "races": x.races, "deadlock": x.deadlock, "pool": poolMisuse, "points": x.npoints}
			b, _ := json.Marshal(out)
			os.NewFile(3, "res").Write(b)
			return
		}
	}
}

type coldResult struct {
	Obs      []string `json:"obs"`
	Races    []string `json:"races"`
	Deadlock string   `json:"deadlock"`
	Pool     int      `json:"pool"`
	Points   int      `json:"points"`
}

func coldExecution(scName string, first int) (coldResult, bool) {
	var out coldResult
	pr, pw, err := os.Pipe()
	if err != nil {
		return out, false
	}
	cmd := exec.Command(os.Args[0], "c19cold", scName, fmt.Sprint(first))
	cmd.ExtraFiles = []*os.File{pw}
	if cmd.Start() != nil {
		return out, false
	}
	pw.Close()
	ok := json.NewDecoder(pr).Decode(&out) == nil
	pr.Close()
	cmd.Wait()
	return out, ok
}

func aloneObservation(scName string, idx int) (string, bool) {
	pr, pw, err := os.Pipe()
	if err != nil {
		return "", false
	}
	cmd := exec.Command(os.Args[0], "c19alone", scName, fmt.Sprint(idx))
	cmd.ExtraFiles = []*os.File{pw}
	if cmd.Start() != nil {
		return "", false
	}
	pw.Close()
	var out string
	dec := json.NewDecoder(pr)
	ok := dec.Decode(&out) == nil
	pr.Close()
	cmd.Wait()
	return out, ok
}

// c19Replay re-executes one recorded schedule (without the explorer) and reports what it observes.
func c19Replay(args []string) {
	b, err := os.ReadFile(args[0])
	if err != nil {
		fmt.Println(err)
		os.Exit(2)
	}
	var rec struct {
		Scenario string `json:"scenario"`
		Choices  []int  `json:"choices"`
		Problem  string `json:"problem"`
	}
	json.Unmarshal(b, &rec)
	installC19Hooks()
	for _, sc := range c19Scenarios() {
		if sc.name != rec.Scenario {
			continue
		}
		bodies, finish := sc.threads(sc.setup())
		for _, f := range bodies {
			f()
		}
		want := finish()
		bodies, finish = sc.threads(sc.setup())
		x := runSchedule(bodies, rec.Choices)
		obs := finish()
		fmt.Printf("scenario: %s\nschedule: %s\nrecorded problem: %s\n", sc.name, compress(rec.Choices), rec.Problem)
		bad := x.deadlock != "" || len(x.races) > 0
		for i := range obs {
			fmt.Printf("call %d returns %.200q\n   alone:        %.200q\n", i, obs[i], want[i])
			if obs[i] != want[i] {
				bad = true
			}
		}
		fmt.Printf("deadlock: %q\nraces: %v\n", x.deadlock, x.races)
		if bad {
			os.Exit(1)
		}
		fmt.Println("replay passes (no violation)")
		return
	}
	fmt.Println("unknown scenario", rec.Scenario)
	os.Exit(2)
}

type vclock []int

func (a vclock) leq(b vclock) bool {
	for i := range a {
		if a[i] > b[i] {
			return false
		}
	}
	return true
}

func (a vclock) join(b vclock) {
	for i := range a {
		if b[i] > a[i] {
			a[i] = b[i]
		}
	}
}

func (a vclock) copy() vclock { return append(vclock{}, a...) }

type thr struct {
	id        int
	resume    chan struct{}
	done      bool
	blockedOn unsafe.Pointer
	vc        vclock
}

type mstate struct {
	owner int
	vc    vclock
}

type varState struct {
	lastWriteThr int
	lastWriteVC  vclock
	reads        map[int]vclock
}

type spoint struct {
	enabled []int
	running int
}

type execution struct {
	choices  []int
	points   []spoint
	obs      []string
	races    []string
	deadlock string
	npoints  int
}

type sched struct {
	thrs    []*thr
	yield   chan struct{}
	cur     int
	prefix  []int
	ex      *execution
	mutexes map[unsafe.Pointer]*mstate
	vars    map[string]*varState
	limit   int
}

var curSched *sched

func (s *sched) me() *thr { return s.thrs[s.cur] }

func (s *sched) point() {
	t := s.me()
	s.yield <- struct{}{}
	<-t.resume
}

func hookPoint(name string, write bool) {
	s := curSched
	if s == nil {
		return
	}
	t := s.me()
	s.point()
	// the access happens now (after the scheduling decision)
	t.vc[t.id]++
	v := s.vars[name]
	if v == nil {
		v = &varState{lastWriteThr: -1, reads: map[int]vclock{}}
		s.vars[name] = v
	}
	if v.lastWriteThr >= 0 && v.lastWriteThr != t.id && !v.lastWriteVC.leq(t.vc) {
		s.ex.races = append(s.ex.races, fmt.Sprintf("%s: %s by T%d is not ordered after the write by T%d", name, rw(write), t.id, v.lastWriteThr))
	}
	if write {
		for u, rvc := range v.reads {
			if u != t.id && !rvc.leq(t.vc) {
				s.ex.races = append(s.ex.races, fmt.Sprintf("%s: write by T%d is not ordered after the read by T%d", name, t.id, u))
			}
		}
		v.lastWriteThr, v.lastWriteVC = t.id, t.vc.copy()
		v.reads = map[int]vclock{}
	} else {
		v.reads[t.id] = t.vc.copy()
	}
}

func rw(w bool) string {
	if w {
		return "write"
	}
	return "read"
}

// poolMisuse counts sync.Pool.Put calls for an object that was already in the pool (reported by
// the pool shim; also outside a scheduled execution, e.g. in the sequential reference run).
var poolMisuse int

func hookSync(op string, addr unsafe.Pointer) {
	if op == "PoolDoublePut" {
		poolMisuse++
		return
	}
	s := curSched
	if s == nil {
		return
	}
	t := s.me()
	m := s.mutexes[addr]
	if m == nil {
		m = &mstate{owner: -1, vc: make(vclock, len(s.thrs))}
		s.mutexes[addr] = m
	}
	switch op {
	case "Lock":
		s.point()
		for m.owner != -1 {
			t.blockedOn = addr
			s.point()
		}
		t.blockedOn = nil
		m.owner = t.id
		t.vc.join(m.vc)
	case "Unlock":
		t.vc[t.id]++
		m.owner = -1
		m.vc = t.vc.copy()
		for _, o := range s.thrs {
			if o.blockedOn == addr {
				o.blockedOn = nil
			}
		}
		s.point()
	default:
		s.point()
	}
}

func hookStep(pc int, inst bytecode.SearchInstruction, st *engine.SearchEngineState) {
	if s := curSched; s != nil {
		s.point()
	}
}

func installC19Hooks() {
	algo.VerifPoint, ast.VerifPoint, bytecode.VerifPoint, ds.VerifPoint, engine.VerifPoint, files.VerifPoint, libvore.VerifPoint = hookPoint, hookPoint, hookPoint, hookPoint, hookPoint, hookPoint, hookPoint
	algo.VerifSync, ast.VerifSync, bytecode.VerifSync, ds.VerifSync, engine.VerifSync, files.VerifSync, libvore.VerifSync = hookSync, hookSync, hookSync, hookSync, hookSync, hookSync, hookSync
	engine.VerifStepHook = hookStep
}

// runSchedule executes the thread bodies under the schedule prefix (choice 0 afterwards).
func runSchedule(bodies []func() string, prefix []int) *execution {
	n := len(bodies)
	s := &sched{yield: make(chan struct{}), cur: -1, prefix: prefix, ex: &execution{}, mutexes: map[unsafe.Pointer]*mstate{}, vars: map[string]*varState{}, limit: 200000}
	s.ex.obs = make([]string, n)
	for i := range bodies {
		i := i
		t := &thr{id: i, resume: make(chan struct{}), vc: make(vclock, n)}
		s.thrs = append(s.thrs, t)
		go func() {
			<-t.resume
			func() {
				defer func() {
					if r := recover(); r != nil {
						s.ex.obs[i] = fmt.Sprintf("panic: %v", r)
					}
				}()
				s.ex.obs[i] = bodies[i]()
			}()
			t.done = true
			s.yield <- struct{}{}
		}()
	}
	curSched = s
	defer func() { curSched = nil }()
	for {
		var en []int
		if s.cur >= 0 && !s.thrs[s.cur].done && s.thrs[s.cur].blockedOn == nil {
			en = append(en, s.cur)
		}
		for _, t := range s.thrs {
			if !t.done && t.blockedOn == nil && t.id != s.cur {
				en = append(en, t.id)
			}
		}
		if len(en) == 0 {
			var stuck []string
			for _, t := range s.thrs {
				if !t.done {
					stuck = append(stuck, fmt.Sprintf("T%d", t.id))
				}
			}
			if len(stuck) > 0 {
				s.ex.deadlock = "no enabled thread; waiting forever: " + strings.Join(stuck, ",")
			}
			break
		}
		i := len(s.ex.points)
		c := 0
		if i < len(prefix) {
			c = prefix[i]
			if c >= len(en) {
				s.ex.deadlock = fmt.Sprintf("replay divergence at point %d (choice %d of %d enabled)", i, c, len(en))
				break
			}
		}
		s.ex.points = append(s.ex.points, spoint{en, s.cur})
		s.ex.choices = append(s.ex.choices, c)
		s.cur = en[c]
		s.thrs[s.cur].resume <- struct{}{}
		<-s.yield
		if len(s.ex.points) > s.limit {
			s.ex.deadlock = "execution exceeded the scheduling-point horizon (livelock?)"
			break
		}
	}
	s.ex.npoints = len(s.ex.points)
	return s.ex
}

func (x *execution) preemptionsBefore(i int) int {
	n := 0
	for j := 0; j < i; j++ {
		p := x.points[j]
		if p.running >= 0 && len(p.enabled) > 0 && p.enabled[0] == p.running && x.choices[j] != 0 {
			n++
		}
	}
	return n
}

type scenario struct {
	name  string
	setup func() any
	// threads returns the bodies (closed over fresh shared state) and a finisher
	// that computes post-hoc observations and invariants.
	threads func(shared any) (bodies []func() string, finish func() []string)
}

func compileObs(v *libvore.Vore, err error) string {
	if err != nil {
		return "error: " + strings.ReplaceAll(err.Error(), "\n", " | ")
	}
	k, _ := bytecodeKey(v)
	var parts []string
	for _, t := range []string{"abab", "a1 b"} {
		ms, pi := runSafe(v, t)
		if pi != nil {
			parts = append(parts, "panic:"+pi.Msg)
		} else {
			parts = append(parts, strings.Join(matchRecords(ms), "|"))
		}
	}
	return "ok bytecode=" + k + " runs=" + strings.Join(parts, " / ")
}

func compileThread(src string, slot **libvore.Vore, errSlot *error) func() string {
	return func() string {
		v, err := libvore.Compile(src)
		*slot, *errSlot = v, err
		return ""
	}
}

func runThread(v *libvore.Vore, text string) func() string {
	return func() string {
		ms := v.Run(text)
		return strings.Join(matchRecords(ms), "|")
	}
}

const (
	srcProcA   = "set f to transform set v to 1 set w to 'q' return v * 2 end\nreplace all 'a' with f"
	srcProcB   = "set g to transform return head v + tail w end\nset p to pattern 'a' begin set k to matchLength return k == 1 end\nreplace all p with g"
	srcBadA    = "find all 'abc"
	srcBadB    = "find all 'a' \"xyz"
	srcBadC    = "find all 'a' ~"
	srcGroupsA = "find all @/(a)(b)?/"
	srcGroupsB = "find all @/((a)|(1))( )?/ find all @/(b)\\1/"
	srcPlain   = "find all 'a' maybe 'b'"
	srcShared  = "set p to pattern 'a' or 'ab'\nfind all p in 'b', '1' maybe p\nfind all at most 2 (p = x) x"
	// statement-level operations on two literals, on a literal and a variable, in set / if / return / debug-free positions
	srcSharedProc = "set lim to transform set n to 1 + 1 set m to 'x' + 'y' if 2 > 1 then set n to n * 1 end if matchLength >= 3 - 1 then return 'L' + n end return match + m end\n" +
		"set p to pattern at least 1 'a' begin set k to 2 * 2 set j to k if matchLength > 9 then return false end end\n" +
		"set q to pattern 'b' begin set u to 1 set w to 2 set z to 3 set y to u + w if y > z then debug 'y' end end\nreplace all p with lim '.'\nfind all p q"
)

const srcNestedLoops = "find all at least 1 (at least 1 (maybe 'a' at least 0 'b') 'c' at most 2 'd')"

var srcLongReads = "find all whole file\nfind all '" + strings.Repeat("c", 70) + "' any"

func c19Scenarios() []scenario {
	compileOnly := func(name string, srcs ...string) scenario {
		return scenario{name: name, setup: func() any { return nil }, threads: func(any) ([]func() string, func() []string) {
			vs := make([]*libvore.Vore, len(srcs))
			es := make([]error, len(srcs))
			var bodies []func() string
			for i, s := range srcs {
				bodies = append(bodies, compileThread(s, &vs[i], &es[i]))
			}
			return bodies, func() []string {
				var o []string
				for i := range srcs {
					o = append(o, compileObs(vs[i], es[i]))
				}
				return o
			}
		}}
	}
	shared := func() any {
		v, err := libvore.Compile(srcShared)
		if err != nil {
			panic(err)
		}
		return v
	}
	sharedProc := func() any {
		v, err := libvore.Compile(srcSharedProc)
		if err != nil {
			panic(err)
		}
		return v
	}
	return []scenario{
		// a program is immutable once compiled: whatever a Run writes into it, another Run reads without synchronisation.
		// The program is fresh in every execution (its first Run happens under the scheduler) and carries process code.
		{name: "S9 Run || Run on a fresh program with a transform and a predicate", setup: sharedProc, threads: func(sh any) ([]func() string, func() []string) {
			v := sh.(*libvore.Vore)
			k0, _ := bytecodeKeyCap(v)
			obs := make([]string, 2)
			return []func() string{func() string { obs[0] = runThread(v, "aab a")(); return "" }, func() string { obs[1] = runThread(v, "a aaa")(); return "" }}, func() []string {
				k1, _ := bytecodeKeyCap(v)
				return []string{obs[0], obs[1], "shared-bytecode-unchanged=" + fmt.Sprint(k0 == k1)}
			}
		}},
		// reads longer than any small scratch buffer (a 70-byte literal, whole file) on three goroutines
		{name: "S10 Run(long reads) || Run(long reads) || Run(short reads)", setup: func() any {
			v, err := libvore.Compile(srcLongReads)
			if err != nil {
				panic(err)
			}
			return v
		}, threads: func(sh any) ([]func() string, func() []string) {
			v := sh.(*libvore.Vore)
			obs := make([]string, 3)
			return []func() string{func() string { obs[0] = runThread(v, strings.Repeat("c", 70)+"x")(); return "" }, func() string { obs[1] = runThread(v, strings.Repeat("c", 70)+"yy")(); return "" },
					func() string { obs[2] = runThread(v, "cb")(); return "" }}, func() []string {
					return []string{obs[0], obs[1], obs[2]}
				}
		}},
		// the text between and after two replaced matches is copied in one long read each
		{name: "S11 Run(replace, long gaps) || Run(replace, long gaps)", setup: func() any {
			v, err := libvore.Compile("replace all 'ab' with 'X'")
			if err != nil {
				panic(err)
			}
			return v
		}, threads: func(sh any) ([]func() string, func() []string) {
			v := sh.(*libvore.Vore)
			obs := make([]string, 2)
			return []func() string{func() string {
					obs[0] = runThread(v, "ab"+strings.Repeat("-", 80)+"ab"+strings.Repeat("=", 70))()
					return ""
				},
					func() string {
						obs[1] = runThread(v, strings.Repeat("+", 66)+"ab"+strings.Repeat("~", 90))()
						return ""
					}}, func() []string {
					return []string{obs[0], obs[1]}
				}
		}},
		// a program with nested loops: its loop ids are drawn one by one while another Compile is under way
		compileOnly("S12 Compile(nested loops) || Compile(loops) || Compile(no loop)", srcNestedLoops, "find all at least 1 'a' maybe 'b'", "find all 'a'"),
		// process code with nested loops beside a source whose `break` stands outside any loop (it must keep being rejected)
		compileOnly("S13 Compile(nested process loops) || Compile(break outside a loop) || Compile(loop in a predicate)",
			"set f to transform set i to 0 loop set i to i + 1 loop if i > 2 then break end set i to i + 1 end if i > 5 then break end end return i end\nreplace all 'a' with f",
			"set g to transform if matchLength > 1 then break end return 'x' end\nreplace all 'a' with g",
			"set p to pattern 'a' begin set n to 0 loop set n to n + 1 if n > 1 then break end continue end return n == 2 end\nfind all p"),
		compileOnly("S1 Compile(groups) || Compile(groups)", srcGroupsA, srcGroupsB),
		compileOnly("S2 Compile(groups) || Compile(no groups)", srcGroupsB, srcPlain),
		compileOnly("S6 Compile || Compile || Compile", srcGroupsA, srcGroupsB, srcGroupsA),
		compileOnly("S7 Compile(transform with assignments) || Compile(transform/predicate reading unset names)", srcProcA, srcProcB),
		compileOnly("S8 Compile(lex error) || Compile(lex error) || Compile(lex error)", srcBadA, srcBadB, srcBadC),
		{name: "S3 Compile || Run(shared program)", setup: shared, threads: func(sh any) ([]func() string, func() []string) {
			v := sh.(*libvore.Vore)
			k0, _ := bytecodeKeyCap(v)
			var cv *libvore.Vore
			var ce error
			obs := make([]string, 2)
			return []func() string{compileThread(srcGroupsA, &cv, &ce), func() string { obs[1] = runThread(v, "ab1a")(); return "" }}, func() []string {
				k1, _ := bytecodeKeyCap(v)
				return []string{compileObs(cv, ce), obs[1], "shared-bytecode-unchanged=" + fmt.Sprint(k0 == k1)}
			}
		}},
		{name: "S4 Run || Run on the same program", setup: shared, threads: func(sh any) ([]func() string, func() []string) {
			v := sh.(*libvore.Vore)
			k0, _ := bytecodeKeyCap(v)
			obs := make([]string, 2)
			return []func() string{func() string { obs[0] = runThread(v, "abab")(); return "" }, func() string { obs[1] = runThread(v, "a1a")(); return "" }}, func() []string {
				k1, _ := bytecodeKeyCap(v)
				return []string{obs[0], obs[1], "shared-bytecode-unchanged=" + fmt.Sprint(k0 == k1)}
			}
		}},
		{name: "S5 Compile || Compile || Run", setup: shared, threads: func(sh any) ([]func() string, func() []string) {
			v := sh.(*libvore.Vore)
			var c1, c2 *libvore.Vore
			var e1, e2 error
			obs := make([]string, 3)
			return []func() string{compileThread(srcGroupsA, &c1, &e1), compileThread(srcGroupsB, &c2, &e2), func() string { obs[2] = runThread(v, "ab")(); return "" }}, func() []string {
				return []string{compileObs(c1, e1), compileObs(c2, e2), obs[2]}
			}
		}},
	}
}

func runC19(c *Ctx) {
	installC19Hooks()
	scs := c19Scenarios()
	maxBound := c.Pick(2, 3)
	for bound := 0; bound <= maxBound; bound++ {
		if !c.Level(fmt.Sprintf("preemptions<=%d", bound)) {
			return
		}
		for _, sc := range scs {
			sc, bound := sc, bound
			if bound >= 3 && !strings.HasPrefix(sc.name, "S1") && !strings.HasPrefix(sc.name, "S2") && !strings.HasPrefix(sc.name, "S6") && !strings.HasPrefix(sc.name, "S7") && !strings.HasPrefix(sc.name, "S8") {
				continue // 3 preemptions only for the Compile-only scenarios (those with Run have a point per VM instruction)
			}
			if bound >= 2 && strings.HasPrefix(sc.name, "S11") {
				continue // ~200 VM instructions per thread
			}
			if !c.Unit(func() string { return fmt.Sprintf("%s, <= %d preemptions", sc.name, bound) }) {
				continue
			}
			exploreScenario(c, sc, bound)
		}
	}
	if c.Level("race-detector pass (supporting)") && c.Unit(func() string { return "the scenario bodies free-running under -race" }) {
		racePass(c)
	}
}

// racePass runs the free-running race-detector binary (supporting evidence).
func racePass(c *Ctx) {
	bin := verifRoot + "/bin/racepass"
	if _, err := os.Stat(bin); err != nil {
		c.Note("race-detector pass skipped: binary not built")
		return
	}
	cmd := exec.Command(bin, fmt.Sprint(c.Pick(200, 1000)))
	cmd.Env = append(os.Environ(), "GORACE=halt_on_error=1 exitcode=66")
	out, err := cmd.CombinedOutput()
	c.Count("race_detector_pass_runs", 1)
	if ee, ok := err.(*exec.ExitError); ok && ee.ExitCode() == 66 {
		txt := string(out)
		if len(txt) > 1500 {
			txt = txt[:1500]
		}
		site := "?"
		for _, l := range strings.Split(txt, "\n") {
			if strings.Contains(l, "github.com/jmeaster30/vore/libvore") {
				site = strings.TrimSpace(l)
				if i := strings.Index(site, "("); i > 0 {
					site = site[:i]
				}
				break
			}
		}
		c.Violation("RACE-DETECTOR "+site, "free-running calls under the Go race detector: "+strings.ReplaceAll(txt, "\n", " | "), map[string]any{"kind": "racepass", "report": txt})
	} else if err != nil && strings.Contains(string(out), "fatal error: concurrent map") {
		txt := string(out)
		if len(txt) > 1200 {
			txt = txt[:1200]
		}
		c.Violation("RACE-DETECTOR concurrent map access", "free-running calls crash the runtime: "+strings.ReplaceAll(txt, "\n", " | "), map[string]any{"kind": "racepass", "report": txt})
	} else if err != nil {
		c.Note(fmt.Sprintf("race-detector pass ended with %v: %.200s", err, out))
	}
}

func exploreScenario(c *Ctx, sc scenario, bound int) {
	// expected: every call executed alone — as the only call of a fresh process (a call that is
	// influenced by an EARLIER call of the same process is as wrong as one influenced by a concurrent call)
	poolMisuse = 0
	bodies, finish := sc.threads(sc.setup())
	for _, b := range bodies {
		b()
	}
	want := finish()
	poolMisuse = 0 // counted again in every scheduled execution
	for i := range bodies {
		if o, ok := aloneObservation(sc.name, i); ok {
			want[i] = o
		}
	}
	// cold executions: each thread order once, each in a fresh process
	if bound == 0 {
		for first := range bodies {
			cr, ok := coldExecution(sc.name, first)
			if !ok {
				c.Note(fmt.Sprintf("%s: the cold execution (thread %d first) gave no result", sc.name, first))
				continue
			}
			c.Eval(1)
			c.Count("cold_process_executions", 1)
			c.Count("sched_points", int64(cr.Points))
			problem := ""
			switch {
			case cr.Pool > 0:
				problem = "POOL-MISUSE an object was put into a sync.Pool that already held it"
			case cr.Deadlock != "":
				problem = "DEADLOCK " + cr.Deadlock
			case len(cr.Races) > 0:
				problem = "RACE " + cr.Races[0]
			default:
				for i := range cr.Obs {
					if i < len(want) && cr.Obs[i] != want[i] {
						problem = fmt.Sprintf("RESULT call %d returns %.300q, alone it returns %.300q", i, cr.Obs[i], want[i])
						break
					}
				}
			}
			if problem != "" {
				cls := strings.Fields(problem)[0]
				if cls == "RACE" {
					cls = "RACE " + strings.SplitN(cr.Races[0], ":", 2)[0]
				}
				c.Violation(cls+" cold | "+sc.name, fmt.Sprintf("%s, first execution of a fresh process, thread %d first, no preemption: %s", sc.name, first, problem),
					map[string]any{"kind": "cold-schedule", "scenario": sc.name, "first": first, "problem": problem, "races": cr.Races})
			}
		}
	}
	cap := 400000
	nexec := 0
	outcomes := map[string]bool{}
	reported := map[string]bool{}
	var explore func(prefix []int)
	explore = func(prefix []int) {
		if nexec >= cap {
			return
		}
		if c.Only < 0 && nexec%64 == 0 && time.Now().After(c.Deadline) {
			if !c.stopped {
				c.Note(fmt.Sprintf("%s bound %d: budget used up after %d executions; not exhaustive at this bound", sc.name, bound, nexec))
			}
			c.stopped = true // reported as exhaustive=false
			return
		}
		poolMisuse = 0
		bodies, finish := sc.threads(sc.setup())
		x := runSchedule(bodies, prefix)
		obs := finish()
		nexec++
		c.Eval(1)
		c.Count("executions", 1)
		c.Count("sched_points", int64(x.npoints))
		if x.preemptionsBefore(len(x.points)) > 0 {
			c.Nontrivial(1)
		}
		if nexec%997 == 1 {
			c.Sample(map[string]any{"scenario": sc.name, "preemption_bound": bound, "schedule": compress(x.choices), "observations": obs})
		}
		key := strings.Join(obs, " ## ")
		outcomes[key] = true
		c.Outcome(sc.name + key)
		problem := ""
		switch {
		case poolMisuse > 0:
			problem = "POOL-MISUSE an object was put into a sync.Pool that already held it: two later Get calls, possibly of different goroutines, share it"
		case x.deadlock != "":
			problem = "DEADLOCK " + x.deadlock
		case len(x.races) > 0:
			problem = "RACE " + x.races[0]
		case strings.Contains(key, "shared-bytecode-unchanged=false"):
			problem = "SHARED-BYTECODE a call changed the bytecode of the program shared by the threads"
		case key != strings.Join(want, " ## "):
			for i := range obs {
				if i < len(want) && obs[i] != want[i] {
					problem = fmt.Sprintf("RESULT call %d returns %.300q, alone it returns %.300q", i, obs[i], want[i])
					break
				}
			}
		}
		if problem != "" {
			cls := strings.Fields(problem)[0]
			if cls == "RACE" {
				cls = "RACE " + strings.SplitN(x.races[0], ":", 2)[0]
			}
			if !reported[cls] {
				reported[cls] = true
				// replay the schedule: it must reproduce
				b2, f2 := sc.threads(sc.setup())
				x2 := runSchedule(b2, x.choices)
				o2 := strings.Join(f2(), " ## ")
				if (x2.deadlock != "") != (x.deadlock != "") || o2 != key || (len(x2.races) > 0) != (len(x.races) > 0) {
					c.Violation("NONDETERMINISTIC-REPLAY "+sc.name, fmt.Sprintf("%s: schedule %v does not reproduce (%s)", sc.name, compress(x.choices), problem), map[string]any{"kind": "schedule", "scenario": sc.name, "choices": x.choices})
				} else {
					c.Violation(cls+" | "+sc.name, fmt.Sprintf("%s with %d preemption(s), schedule %v: %s", sc.name, x.preemptionsBefore(len(x.points)), compress(x.choices), problem),
						map[string]any{"kind": "schedule", "scenario": sc.name, "choices": x.choices, "problem": problem, "races": x.races})
				}
			} else {
				c.Count("violating_executions", 1)
			}
			if x.deadlock != "" {
				return // points after a deadlock are meaningless
			}
		}
		for i := len(prefix); i < len(x.points); i++ {
			p := x.points[i]
			cost := x.preemptionsBefore(i)
			if p.running >= 0 && len(p.enabled) > 0 && p.enabled[0] == p.running {
				cost++ // switching away from a runnable thread is a preemption
			}
			if cost > bound {
				continue
			}
			for alt := 1; alt < len(p.enabled); alt++ {
				np := append(append([]int{}, x.choices[:i]...), alt)
				explore(np)
			}
		}
	}
	explore(nil)
	c.Max("executions_per_scenario", int64(nexec))
	c.Max("distinct_outcomes_per_scenario", int64(len(outcomes)))
	if nexec >= cap {
		c.Count("capped_units", 1)
		c.Note(fmt.Sprintf("%s bound %d: stopped after %d executions (cap); not exhaustive at this bound", sc.name, bound, nexec))
	}
	var ks []string
	for k := range outcomes {
		ks = append(ks, k)
	}
	sort.Strings(ks)
}

func compress(ch []int) string {
	// run-length rendering of a choice sequence: only the non-default choices matter
	var p []string
	for i, c := range ch {
		if c != 0 {
			p = append(p, fmt.Sprintf("@%d:%d", i, c))
		}
	}
	return "[" + strings.Join(p, " ") + "] of " + fmt.Sprint(len(ch)) + " points"
}
