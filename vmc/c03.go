package main

import (
	"fmt"
	"os"
	"path/filepath"
	"sort"
	"strings"

	"github.com/jmeaster30/vore/libvore/engine"
)

// matchRecord renders every observable field of a match canonically.
func matchRecord(m engine.Match) string {
	vars := stringVars(m)
	var ks []string
	for k := range vars {
		ks = append(ks, k)
	}
	sort.Strings(ks)
	var b strings.Builder
	fmt.Fprintf(&b, "#%d off[%d,%d) line[%d,%d] col[%d,%d] val=%q", m.MatchNumber, m.Offset.Start, m.Offset.End, m.Line.Start, m.Line.End, m.Column.Start, m.Column.End, m.Value)
	if m.Replacement.HasValue() {
		fmt.Fprintf(&b, " repl=%q", m.Replacement.GetValue())
	}
	for _, k := range ks {
		fmt.Fprintf(&b, " %s=%q", k, vars[k])
	}
	return b.String()
}

func matchRecords(ms engine.Matches) []string {
	var out []string
	for _, m := range ms {
		out = append(out, matchRecord(m))
	}
	return out
}

func lineCol(s string, off int) (int, int) {
	line, last := 1, -1
	for i := 0; i < off && i < len(s); i++ {
		if s[i] == '\n' {
			line++
			last = i
		}
	}
	return line, off - last
}

// shapeViolation is the C03 monitor: it recomputes every located field of every
// match from the input bytes. firstNumber<0: only consecutiveness is required.
func shapeViolation(text string, ms engine.Matches, firstNumber int) string {
	prevEnd := 0
	for i, m := range ms {
		s, e := m.Offset.Start, m.Offset.End
		if !(0 <= s && s < e && e <= len(text)) {
			return fmt.Sprintf("match %d: offsets [%d,%d) not within 0 <= start < end <= %d", i, s, e, len(text))
		}
		if m.Value != text[s:e] {
			return fmt.Sprintf("match %d: Value %q != input[%d:%d] %q", i, m.Value, s, e, text[s:e])
		}
		if i > 0 && s < prevEnd {
			return fmt.Sprintf("match %d: starts at %d before the previous match ended at %d (overlap / order)", i, s, prevEnd)
		}
		prevEnd = e
		if i == 0 && firstNumber >= 0 && m.MatchNumber != firstNumber {
			return fmt.Sprintf("match 0: MatchNumber %d, expected %d", m.MatchNumber, firstNumber)
		}
		if i > 0 && m.MatchNumber != ms[i-1].MatchNumber+1 {
			return fmt.Sprintf("match %d: MatchNumber %d does not follow %d", i, m.MatchNumber, ms[i-1].MatchNumber)
		}
		if m.MatchNumber < 1 {
			return fmt.Sprintf("match %d: MatchNumber %d < 1", i, m.MatchNumber)
		}
		ls, cs := lineCol(text, s)
		le, ce := lineCol(text, e)
		if m.Line.Start != ls || m.Line.End != le {
			return fmt.Sprintf("match %d [%d,%d): Line [%d,%d], expected [%d,%d]", i, s, e, m.Line.Start, m.Line.End, ls, le)
		}
		if isASCII(text) && (m.Column.Start != cs || m.Column.End != ce) { // the column claim is made for ASCII inputs
			return fmt.Sprintf("match %d [%d,%d): Column [%d,%d], expected [%d,%d]", i, s, e, m.Column.Start, m.Column.End, cs, ce)
		}
		for k, v := range stringVars(m) {
			if !strings.Contains(m.Value, v) {
				return fmt.Sprintf("match %d: variable %s=%q is not a substring of Value %q", i, k, v, m.Value)
			}
		}
	}
	return ""
}

type headSpec struct {
	find, repl string
	first      int // expected first MatchNumber (-1: consecutive only)
}

var c03Heads = []headSpec{
	{"find all", "replace all", 1}, {"find skip 1", "replace skip 1", 2}, {"find skip 1 take 2", "replace skip 1 take 2", 2},
	{"find top 2", "replace top 2", 1}, {"find take 1", "replace take 1", 1}, {"find last 2", "replace last 2", -1},
}

func shapeUnit(c *Ctx, srcBody string, defs string, txts []string, heads []headSpec, withReplace bool) {
	for _, h := range heads {
		variants := []string{defs + h.find + " " + srcBody}
		if withReplace {
			variants = append(variants, defs+h.repl+" "+srcBody+" with 'xy'")
		}
		for _, src := range variants {
			v, err, pi := compileSafe(src)
			if pi != nil || err != nil {
				c.Count("rejected_sources", 1)
				continue // C08/C15 territory; C03 is about accepted programs
			}
			for _, t := range txts {
				c.Eval(1)
				ms, pi := runSafe(v, t)
				if pi != nil {
					c.Count("run_panics_left_to_C09", 1)
					continue
				}
				if len(ms) > 0 {
					c.Nontrivial(1)
				}
				c.Outcome(strings.Join(matchRecords(ms), "|"))
				if msg := shapeViolation(t, ms, h.first); msg != "" {
					key := msg
					if i := strings.Index(key, ":"); i >= 0 {
						key = key[i+1:]
					}
					key = strings.Fields(key)[0]
					c.Violation("SHAPE "+key+" "+strings.Fields(h.find)[1], fmt.Sprintf("%q on %q: %s", src, t, msg),
						map[string]any{"kind": "shape", "src": src, "text": t, "first": h.first})
				}
			}
		}
	}
}

func gramD6() *Gram {
	return &Gram{Atoms: []*T{lit("a"), lit(" "), lit("\n"), class("any", false), class("whitespace", false), {K: NOTLIT, S: "\n"},
		anchor("line start", false), anchor("line end", false), anchor("word start", false),
		{K: CLASS, S: "whole line"}, {K: CLASS, S: "whole word"}, {K: CLASS, S: "whole file"}},
		Loops: []LoopKind{{0, 1, false}, {0, -1, false}, {1, -1, true}, {1, -1, false}}, Or: true}
}

var d6Fixed = []string{
	"@/a+/", "@/(a| )\\n?/", "@/^a*$/", "@/[^a]+/", "@/(?<w>a+)( |\\n)(\\k<w>)?/", "@/.\\n./", "@/\\s+/", "@/a{1,2}?\\n/",
	"at least 1 ('a' = x) named row", "at least 1 (maybe ' ' (at least 0 not in ' ', '\\n') = el) named row line end",
	"at least 0 (('a' = x) or (' ' = y)) named r '\\n'", "between 1 and 2 (any = c) named cs", "exactly 2 (any = c)",
	"line start at least 0 (maybe ',' (at least 0 not in ',', '\\n') = element) named row line end '\\n' or file end",
	"whole line", "whole word", "whole file", "not whole line", "whole line '\\n' whole line", "(whole word) = w ' ' w",
	"(at least 1 any fewest) = x '\\n' x", "file start any", "any file end", "not line start any", "in 'a', ' ' to '!'", "caseless 'A' not in 'a'",
	"{'a' maybe s '\\n'} = s", "({any} = one) one",
	// nested named loops with a choice point inside the open inner loop and an optional capture in the outer body
	"at least 1 ((at least 1 'a' fewest named cells) maybe (('a' ' ' any) = tag 'Q') ' ') named rows",
	"at least 1 ((at least 1 (any = c) fewest named cells) maybe (('a' any) = tag '\\n') ' ') named rows",
	"at least 1 (at least 1 (('a' = x ' ') or 'a') named in ' ') named out",
	// literals of more than one byte per character: offsets and columns count bytes
	"'\xc3\xa9'", "'\xc3\xa9' any", "'a\xc3\xa9' maybe ' '", "caseless '\xc3\xa9A'", "not '\xc3\xa9a' any", "in '\xc3\xa9', 'a'", "('\xe2\x82\xac' = e) ' ' e",
}

func init() {
	register(&Check{
		ID:    "C03",
		Level: "exploration",
		Rule: "runtime monitor over exhaustive enumerations: every program of <= n nodes of the layout driver D6 (newline-rich alphabet, whole line/word/file, anchors), of D1 and D4 (captures), plus fixed regex-literal / named-loop / recursion programs, each under six amount clauses and as find and replace, x every text over {a,' ',\\n} (resp. {a,b}) up to length 5; " +
			"every field of every match (offsets, value, order, numbering, line, column, variables) is recomputed from the input bytes; non-trivial = runs that reported at least one match",
		Assume: []string{"ASCII inputs (column claim)", "programs rejected by Compile are skipped here (C08/C15 own acceptance)"},
		Budget: map[string]int{"quick": 120, "thorough": 1200},
		Run:    runC03,
	})
}

func runC03(c *Ctx) {
	installStepHook()
	defer flushInstKinds(c)
	txts := texts("a \n", c.Pick(4, 5))
	g := gramD6()
	for n := 1; n <= 3; n++ {
		if !c.Level("D6:n=" + itoa(n)) {
			return
		}
		for _, body := range g.Seqs(n) {
			src := renderSeq(body)
			if c.Unit(func() string { return src }) {
				c.Count("programs", 1)
				shapeUnit(c, src, "", txts, c03Heads, n <= 2)
			}
		}
	}
	if c.Level("D6:fixed") {
		long := append(texts("a \n", 5), "a a\na a\n", "aa,a\n,a\na", "a\n\na  a", "a\r\na", " a\n a\n",
			"caf\xc3\xa9 \xc3\xa9 a\xc3\xa9\n\xc3\xa9", "\xc3\xa9a\xc3\xa9A \xe2\x82\xac \xe2\x82\xac", "\xc3\xa9")
		for _, src := range d6Fixed {
			src := src
			if c.Unit(func() string { return src }) {
				c.Count("programs", 1)
				shapeUnit(c, src, "", long, c03Heads, true)
			}
		}
	}
	// the same monitor on file input (RunFiles): sizes around the read buffer, newline-rich content
	if c.Level("files") {
		dir, err := os.MkdirTemp("", "vmc-c03-")
		if err == nil {
			defer os.RemoveAll(dir)
			for _, size := range []int{4096, 5000, 6100, 8193} {
				b := make([]byte, size)
				for i := range b {
					b[i] = "ab a\nb  a"[i%9]
				}
				path := filepath.Join(dir, fmt.Sprint("f", size))
				os.WriteFile(path, b, 0o644)
				for _, prog := range []string{"find all 'a' maybe 'b'", "find all at least 1 not ' '", "find last 3 'a'", "find skip 2 whole line", "replace all ('b' = x) with x x", "find all line start any", "find all (any = x) ' ' x", "find all 'b' whitespace", "find all whole file", "find all at least 1 whole line '\n'", "find all 'ab a' (at least 4095 any fewest) = mid 'b'"} {
					prog, size := prog, size
					if !c.Unit(func() string { return fmt.Sprintf("%s on a %d-byte file", prog, size) }) {
						continue
					}
					v, err, pi := compileSafe(prog)
					if err != nil || pi != nil {
						continue
					}
					var ms engine.Matches
					if pi := guard(func() { ms = v.RunFiles([]string{path}, engine.NOTHING, false) }); pi != nil {
						continue // C07/C09
					}
					c.Eval(1)
					if len(ms) > 0 {
						c.Nontrivial(1)
					}
					first := 1
					if strings.Contains(prog, "skip 2") {
						first = 3
					}
					if strings.Contains(prog, "last") {
						first = -1
					}
					if msg := shapeViolation(string(b), ms, first); msg != "" {
						c.Violation("SHAPE file "+strings.Fields(msg)[0], fmt.Sprintf("RunFiles(%q) on a %d-byte file: %s", prog, size, msg), map[string]any{"kind": "file-shape", "src": prog, "size": size})
					}
				}
			}
		}
	}
	// captures and control structure on {a,b}
	tab := texts("ab", c.Pick(4, 5))
	g4 := gramD4(false)
	for n := 2; n <= c.Pick(3, 4); n++ {
		if !c.Level("D4:n=" + itoa(n)) {
			return
		}
		for _, raw := range g4.Seqs(n) {
			body := instantiate(raw, true)
			if body == nil {
				continue
			}
			src := renderSeq(body)
			if c.Unit(func() string { return src }) {
				c.Count("programs", 1)
				shapeUnit(c, src, "", tab, c03Heads[:3], false)
			}
		}
	}
	// D4x: a two-byte atom, so that a capture made on an abandoned path holds text the match that is
	// finally reported does not contain (the "variable is a substring of the value" clause)
	g4x := &Gram{Atoms: []*T{lit("ab"), lit("a"), lit("b")}, Or: true, Cap: true, Loops: []LoopKind{{0, 1, false}, {0, -1, true}}}
	for n := 4; n <= c.Pick(6, 6); n++ {
		if !c.Level("D4x:n=" + itoa(n)) {
			return
		}
		for _, raw := range g4x.Seqs(n) {
			body := instantiate(raw, true)
			if body == nil {
				continue
			}
			src := renderSeq(body)
			if c.Unit(func() string { return src }) {
				c.Count("programs", 1)
				shapeUnit(c, src, "", tab, c03Heads[:1], false)
			}
		}
	}
	g1 := gramD1()
	for n := 1; n <= c.Pick(3, 4); n++ {
		if !c.Level("D1:n=" + itoa(n)) {
			return
		}
		for _, body := range g1.Seqs(n) {
			src := renderSeq(body)
			if c.Unit(func() string { return src }) {
				c.Count("programs", 1)
				shapeUnit(c, src, "", tab, c03Heads[:2], false)
			}
		}
	}
}

func isASCII(s string) bool {
	for i := 0; i < len(s); i++ {
		if s[i] >= 0x80 {
			return false
		}
	}
	return true
}
