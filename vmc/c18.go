package main

import (
	"bytes"
	"encoding/json"
	"fmt"
	"os"
	"os/exec"
	"path/filepath"
	"strings"

	"github.com/jmeaster30/vore/libvore"
	"github.com/jmeaster30/vore/libvore/engine"
	"github.com/jmeaster30/vore/libvore/files"
)

var cliPath = verifRoot + "/bin/vore-cli"

func init() {
	register(&Check{
		ID:    "C18",
		Level: "model_checking",
		Rule: "the full cross product of the CLI's documented configuration space is executed on the binary built from /repo's tree: {-com,-src} x program {find with matches, find without, replace, compile error, replace with an empty text, two commands} x -files {one file, glob of several, nothing matching, overlapping stars, a wildcard directory segment that also matches plain files, a literal directory segment that is a symbolic link, a literal name that is a link to a directory, a literal name that is a dangling link} x stdout {none,-json,-formatted-json,both} x -json-file {absent,present} x -formatted-json-file {absent,present} x -replace-mode {absent,NEW,NOTHING,OVERWRITE,BOGUS,CONFIRM (in the library's enumeration, not offered by the CLI)} x -no-output {no,yes}, plus the invocations that name a JSON output file once more with stale, longer output files already present (10080 invocations in all), each in a fresh scratch directory whose files hold quotes, backslashes, per-cent signs, ESC, 0x01, 0x7f and a non-UTF-8 byte where the program captures them; " +
			"oracle: exit status; stdout under -json/-formatted-json is exactly one JSON document equal field by field to the library's result computed in-process on a twin directory; JSON files likewise; directory post-state equals the twin's (mode honoured, NEW default); invalid combinations / unknown mode / compile error: non-zero exit, a message, directory unchanged; states = distinct (configuration class, exit status, directory effect) outcomes, transitions = invocations",
		Assume: []string{"with -no-output, and with zero matches, what the JSON files contain is not fixed by the documentation: only exit status and directory effects of the mode are checked there"},
		Budget: map[string]int{"quick": 200, "thorough": 900},
		Run:    runC18,
		Prepare: func() error {
			cmd := exec.Command("go", "build", "-o", cliPath, ".")
			cmd.Dir = "/repo"
			env := []string{}
			for _, e := range os.Environ() {
				if strings.HasPrefix(e, "GOFLAGS=") || strings.HasPrefix(e, "GOWORK=") {
					continue
				}
				env = append(env, e)
			}
			cmd.Env = append(env, "GOFLAGS=", "CGO_ENABLED=0")
			if ov := os.Getenv("VERIF_OVERLAY"); ov != "" {
				cmd.Args = append(cmd.Args[:2], append([]string{"-overlay", ov}, cmd.Args[2:]...)...)
			}
			out, err := cmd.CombinedOutput()
			if err != nil {
				return fmt.Errorf("building the CLI from /repo failed: %v\n%s", err, out)
			}
			return nil
		},
		Post: func(a *Agg, cov map[string]any) {
			cov["states"] = len(a.Outcomes)
			cov["transitions"] = a.Counters["invocations"]
			cov["traces_validated_against_impl"] = a.Counters["invocations"]
			cov["explanation"] = "every configuration is executed on the real binary; the expected output is the library's own result on a twin directory"
		},
	})
}

type cliCfg struct {
	src      bool
	prog     int // 0 find+matches 1 find no matches 2 replace 3 compile error
	fileset  int // 0 one 1 glob 2 none
	stdout   int // 0 none 1 json 2 fjson 3 both
	jsonFile bool
	fjFile   bool
	mode     int // 0 absent 1 NEW 2 NOTHING 3 OVERWRITE 4 BOGUS
	noOutput bool
	stale    bool // the JSON output files exist already, holding a longer document of an earlier run
}

// the last program has two commands: the library runs each command over all files in turn
var cliProgs = []string{"find all 'a' (maybe not ' ') = x", "find all 'zzz'", "replace all 'a' with 'XY'", "find all (", "replace all 'b' with ''", "find all 'a'\nfind all 'b' maybe 'a'"}
// the last pattern has a wildcard directory segment that also matches plain files (b.txt, aba.txt) beside the directory sub
// the one before: a literal directory segment that is a symbolic link to the directory sub
// the last two name, literally, a link to a directory and a link to nothing: neither is a file
var cliGlobs = []string{"a.txt", "*.txt", "zzz*", "a*a.txt", "*b*/a.txt", "lnk/a.txt", "lnk", "gone.txt"}
// CONFIRM is a member of the library's ReplaceMode enumeration that the CLI does not document or implement
var cliModes = []string{"", "NEW", "NOTHING", "OVERWRITE", "BOGUS", "CONFIRM"}

func (k cliCfg) args() []string {
	var a []string
	if k.src {
		a = append(a, "-src", "prog.vore")
	} else {
		a = append(a, "-com", cliProgs[k.prog])
	}
	a = append(a, "-files", cliGlobs[k.fileset])
	if k.stdout == 1 || k.stdout == 3 {
		a = append(a, "-json")
	}
	if k.stdout == 2 || k.stdout == 3 {
		a = append(a, "-formatted-json")
	}
	if k.jsonFile {
		a = append(a, "-json-file", "out.json")
	}
	if k.fjFile {
		a = append(a, "-formatted-json-file", "fout.json")
	}
	if k.mode > 0 {
		a = append(a, "-replace-mode", cliModes[k.mode])
	}
	if k.noOutput {
		a = append(a, "-no-output")
	}
	return a
}

func cliSetup(dir string, staleOutputs bool) {
	os.WriteFile(filepath.Join(dir, "a.txt"), []byte("ab a%d\nxa\"b a\\ 100% a%s\na\x1b[0m a\x01 a\xff a\x7f\n"), 0o644)
	os.WriteFile(filepath.Join(dir, "b.txt"), []byte("bab"), 0o644)
	os.WriteFile(filepath.Join(dir, "c.md"), []byte("aaa"), 0o644)
	os.WriteFile(filepath.Join(dir, "aba.txt"), []byte("ab"), 0o644)
	os.WriteFile(filepath.Join(dir, "a.txt.vored"), []byte("STALE STALE STALE STALE"), 0o644)
	os.Mkdir(filepath.Join(dir, "sub"), 0o755)
	os.WriteFile(filepath.Join(dir, "sub", "a.txt"), []byte("a in sub, ab\n"), 0o644)
	os.WriteFile(filepath.Join(dir, "sub", "c.md"), []byte("aa"), 0o644)
	os.Symlink("sub", filepath.Join(dir, "lnk"))
	os.Symlink("nowhere.txt", filepath.Join(dir, "gone.txt"))
	// output files left over from an earlier, larger run: they must be replaced, not overwritten in place
	if staleOutputs {
		stale := "[" + strings.Repeat("{\"stale\":true},", 400) + "{}]"
		os.WriteFile(filepath.Join(dir, "out.json"), []byte(stale), 0o644)
		os.WriteFile(filepath.Join(dir, "fout.json"), []byte(stale), 0o644)
	}
}

func runC18(c *Ctx) {
	if !c.Level("product") {
		return
	}
	for _, src := range []bool{false, true} {
		for prog := 0; prog < len(cliProgs); prog++ {
			for fs := 0; fs < len(cliGlobs); fs++ {
				if fs >= 3 && prog != 0 && prog != 4 {
					continue // the overlapping-star glob is crossed with two programs only
				}
				if prog == 5 && fs > 1 {
					continue // the two-command program: one file and the glob of several
				}
				if prog == 4 && fs != 0 && fs < 3 {
					continue
				}
				for so := 0; so < 4; so++ {
					for _, jf := range []bool{false, true} {
						for _, fj := range []bool{false, true} {
							for mode := 0; mode < len(cliModes); mode++ {
								for _, no := range []bool{false, true} {
									for _, st := range []bool{false, true} {
										if st && !jf && !fj {
											continue // stale output files only matter when an output file is named
										}
										k := cliCfg{src, prog, fs, so, jf, fj, mode, no, st}
										if c.Unit(func() string { return fmt.Sprintf("%s (stale outputs: %v)", strings.Join(k.args(), " "), st) }) {
											c18Case(c, k)
										}
									}
								}
							}
						}
					}
				}
			}
		}
	}
}

func c18Case(c *Ctx, k cliCfg) {
	dir, err := os.MkdirTemp("", "vmc-c18-")
	if err != nil {
		return
	}
	defer os.RemoveAll(dir)
	twin, _ := os.MkdirTemp("", "vmc-c18t-")
	defer os.RemoveAll(twin)
	for _, d := range []string{dir, twin} {
		cliSetup(d, k.stale)
		if k.src {
			os.WriteFile(filepath.Join(d, "prog.vore"), []byte(cliProgs[k.prog]), 0o644)
		}
	}
	before := snapshotDir(dir)
	args := k.args()
	cmd := exec.Command(cliPath, args...)
	cmd.Dir = dir
	var so, se bytes.Buffer
	cmd.Stdout, cmd.Stderr = &so, &se
	err = cmd.Run()
	exit := 0
	if err != nil {
		if ee, ok := err.(*exec.ExitError); ok {
			exit = ee.ExitCode()
		} else {
			exit = -1
		}
	}
	c.Eval(1)
	c.Count("invocations", 1)
	c.Nontrivial(1)
	after := snapshotDir(dir)
	if k.prog == 2 && k.fileset == 1 && k.stdout == 1 {
		c.Sample(map[string]any{"argv": args, "exit": exit, "stdout": trunc(so.String(), 160), "directory_after": fmtDir(after)})
	}
	rec := map[string]any{"kind": "cli", "args": args, "exit": exit, "stdout": trunc(so.String(), 400), "stderr": trunc(se.String(), 400)}
	desc := "vore " + strings.Join(args, " ")
	invalid := k.stdout == 3 || k.mode >= 4 || k.prog == 3
	isReplaceProg := k.prog == 2 || k.prog == 4
	_ = isReplaceProg
	cls := fmt.Sprintf("prog%d files%d stdout%d jf%v fj%v mode%s no%v", k.prog, k.fileset, k.stdout, k.jsonFile, k.fjFile, cliModes[k.mode], k.noOutput)
	c.Outcome(fmt.Sprintf("%v %d %v", invalid, exit, fmtDirFull(before) == fmtDirFull(after)))
	if invalid {
		if exit == 0 {
			c.Violation("INVALID-EXIT-0 "+invalidKind(k), fmt.Sprintf("%s: invalid invocation exits 0", desc), rec)
			return
		}
		if strings.Contains(se.String(), "panic:") || strings.Contains(se.String(), "goroutine ") {
			c.Violation("INVALID-PANIC "+invalidKind(k), fmt.Sprintf("%s: crashes instead of reporting: %.200s", desc, se.String()), rec)
			return
		}
		if so.Len()+se.Len() == 0 {
			c.Violation("INVALID-SILENT "+invalidKind(k), fmt.Sprintf("%s: exits %d without a message", desc, exit), rec)
			return
		}
		if fmtDirFull(before) != fmtDirFull(after) {
			c.Violation("INVALID-MODIFIES "+invalidKind(k), fmt.Sprintf("%s: invalid invocation modified the directory: {%s} -> {%s}", desc, fmtDir(before), fmtDir(after)), rec)
		}
		return
	}
	if exit != 0 {
		what := "EXIT"
		if strings.Contains(se.String(), "panic:") {
			what = "PANIC"
		}
		c.Violation(fmt.Sprintf("%s-NONZERO jsonfile=%v stdout=%d", what, k.jsonFile || k.fjFile, k.stdout), fmt.Sprintf("%s: exits %d: %.300s", desc, exit, firstLines(se.String(), 3)), rec)
		return
	}
	// library result on the twin directory
	v, cerr, _ := compileSafe(cliProgs[k.prog])
	if cerr != nil || v == nil {
		return
	}
	mode := engine.NEW
	switch k.mode {
	case 2:
		mode = engine.NOTHING
	case 3:
		mode = engine.OVERWRITE
	}
	// the files the glob denotes, by the reference matcher of C20 (not by the library under test)
	var list []string
	if entries, err := os.ReadDir(twin); err == nil {
		glob := cliGlobs[k.fileset]
		for _, e := range entries {
			if ds, fs, nested := strings.Cut(glob, "/"); nested {
				if st, err := os.Stat(filepath.Join(twin, e.Name())); err == nil && st.IsDir() && globMatch(ds, e.Name()) {
					sub, _ := os.ReadDir(filepath.Join(twin, e.Name()))
					for _, f := range sub {
						if !f.IsDir() && globMatch(fs, f.Name()) {
							list = append(list, filepath.Join(twin, e.Name(), f.Name()))
						}
					}
				}
			} else if st, err := os.Stat(filepath.Join(twin, e.Name())); err == nil && st.Mode().IsRegular() && globMatch(glob, e.Name()) {
				list = append(list, filepath.Join(twin, e.Name())) // a link counts as what it points to
			}
		}
	}
	_ = files.ParsePath
	var lib engine.Matches
	if len(list) > 0 {
		if pi := guard(func() { lib = v.RunFiles(list, mode, false) }); pi != nil {
			return // C06/C09
		}
	}
	for i := range lib {
		lib[i].Filename = strings.TrimPrefix(strings.TrimPrefix(lib[i].Filename, twin+"/"), "/")
	}
	expected := snapshotDir(twin)
	// directory: everything except the JSON output files must equal the twin
	got := map[string]string{}
	for n, b := range after {
		if n == "out.json" || n == "fout.json" {
			continue
		}
		got[n] = b
	}
	delete(expected, "out.json")
	delete(expected, "fout.json")
	if fmtDirFull(got) != fmtDirFull(expected) {
		c.Violation("DIRECTORY mode="+cliModes[k.mode]+fmt.Sprintf(" prog%d", k.prog), fmt.Sprintf("%s: directory is {%s}, the library leaves {%s}", desc, fmtDir(got), fmtDir(expected)), rec)
		return
	}
	if len(lib) == 0 || k.noOutput {
		return // nothing fixed by the documentation about JSON output here
	}
	checkDoc := func(where, text string) {
		var doc any
		dec := json.NewDecoder(strings.NewReader(text))
		if err := dec.Decode(&doc); err != nil {
			c.Violation("JSON-NOT-A-DOCUMENT "+where, fmt.Sprintf("%s: %s is not a JSON document (%v): %.160q", desc, where, err, text), rec)
			return
		}
		var extra any
		if err := dec.Decode(&extra); err == nil {
			c.Violation("JSON-MORE-THAN-ONE "+where, fmt.Sprintf("%s: %s holds more than one JSON document: %.160q", desc, where, text), rec)
			return
		} else if strings.TrimSpace(text[dec.InputOffset():]) != "" {
			c.Violation("JSON-TRAILING "+where, fmt.Sprintf("%s: %s has text after the JSON document: %.160q", desc, where, text), rec)
			return
		}
		arr, _ := doc.([]any)
		for _, e := range arr {
			if o, ok := e.(map[string]any); ok {
				if fn, ok := o["filename"].(string); ok {
					o["filename"] = strings.TrimPrefix(strings.TrimPrefix(fn, dir+"/"), "/"+dir+"/")
				}
			}
		}
		if msg := c17Check(lib, arr, nil); msg != "" {
			c.Violation("JSON-DIFFERS "+where, fmt.Sprintf("%s: %s differs from the library result: %s", desc, where, msg), rec)
		}
	}
	if k.stdout == 1 || k.stdout == 2 {
		checkDoc("stdout", so.String())
	}
	if k.jsonFile {
		if text, ok := after["out.json"]; !ok {
			c.Violation("JSON-FILE-MISSING", fmt.Sprintf("%s: -json-file was not written", desc), rec)
		} else {
			checkDoc("-json-file", text)
		}
	}
	if k.fjFile {
		if text, ok := after["fout.json"]; !ok {
			c.Violation("JSON-FILE-MISSING", fmt.Sprintf("%s: -formatted-json-file was not written", desc), rec)
		} else {
			checkDoc("-formatted-json-file", text)
		}
	}
	_ = cls
	_ = libvore.Compile
}

func invalidKind(k cliCfg) string {
	switch {
	case k.prog == 3:
		return "compile-error"
	case k.mode >= 4:
		return "unknown-mode"
	}
	return "json+formatted-json"
}

func firstLines(s string, n int) string {
	l := strings.SplitN(s, "\n", n+1)
	if len(l) > n {
		l = l[:n]
	}
	return strings.Join(l, " | ")
}
