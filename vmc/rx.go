package main

// Regular-expression side of C14: an enumerator of regex source strings by node
// count, and an INDEPENDENT parser of the supported subset into the term algebra
// (conventional semantics: groups numbered by opening parenthesis, `|` lowest
// precedence, `.` = any byte but newline, ^ $ line anchors).

import (
	"fmt"
	"strconv"
	"strings"
)

type RX struct {
	S        string
	Nullable bool
	N        int
	Quant    bool // ends with a quantifier
	Anchor   bool
}

type rxGram struct {
	atoms  []string
	quants []struct {
		s    string
		min0 bool
	}
	pieceM, seqM, altM map[int][]RX
	named              bool
}

func newRxGram(reduced bool) *rxGram {
	g := &rxGram{pieceM: map[int][]RX{}, seqM: map[int][]RX{}, altM: map[int][]RX{}}
	g.atoms = []string{"a", "b", ".", "[ab]", "[^a]", "[a-b]", `\d`, `\D`, `\s`, `\S`, `\1`, `\2`, `\k<n>`}
	type q = struct {
		s    string
		min0 bool
	}
	g.quants = []q{{"*", true}, {"+", false}, {"?", true}, {"{2}", false}, {"{1,}", false}, {"{1,2}", false}, {"*?", true}, {"+?", false}, {"??", true}, {"{1,2}?", false}, {"{2}?", false}, {"{1,}?", false}}
	if reduced {
		g.atoms = []string{"a", "b", ".", "[^a]", `\1`, `\k<n>`}
		g.quants = []q{{"*", true}, {"+", false}, {"?", true}, {"{1,2}", false}, {"*?", true}, {"+?", false}, {"{2}?", false}}
	}
	return g
}

func (g *rxGram) pieces(n int) []RX {
	if v, ok := g.pieceM[n]; ok {
		return v
	}
	var out []RX
	if n == 1 {
		for _, a := range g.atoms {
			// a back-reference may match the empty string (its group may be empty)
			out = append(out, RX{S: a, Nullable: a[0] == '\\' && (a[1] == 'k' || a[1] >= '1' && a[1] <= '9'), N: 1})
		}
		out = append(out, RX{S: "^", Nullable: true, N: 1, Anchor: true}, RX{S: "$", Nullable: true, N: 1, Anchor: true})
	}
	if n >= 2 {
		for _, b := range g.bodies(n - 1) {
			out = append(out, RX{S: "(" + b.S + ")", Nullable: b.Nullable, N: n})
			out = append(out, RX{S: "(?:" + b.S + ")", Nullable: b.Nullable, N: n})
			out = append(out, RX{S: "(?<n>" + b.S + ")", Nullable: b.Nullable, N: n})
		}
		for _, p := range g.pieces(n - 1) {
			if p.Anchor || p.Quant || p.Nullable {
				continue // repeated bodies must not be nullable (property's side condition)
			}
			for _, q := range g.quants {
				out = append(out, RX{S: p.S + q.s, Nullable: q.min0, N: n, Quant: true})
			}
		}
	}
	g.pieceM[n] = out
	return out
}

func (g *rxGram) bodies(n int) []RX {
	out := append([]RX{}, g.seqs(n)...)
	return append(out, g.alts(n)...)
}

func (g *rxGram) seqs(n int) []RX {
	if v, ok := g.seqM[n]; ok {
		return v
	}
	var out []RX
	out = append(out, g.pieces(n)...)
	for k := 1; k < n; k++ {
		for _, p := range g.pieces(k) {
			for _, r := range g.seqs(n - k) {
				out = append(out, RX{S: p.S + r.S, Nullable: p.Nullable && r.Nullable, N: n})
			}
		}
	}
	g.seqM[n] = out
	return out
}

func (g *rxGram) alts(n int) []RX {
	if v, ok := g.altM[n]; ok {
		return v
	}
	var out []RX
	for k := 1; k < n-1; k++ {
		for _, p := range g.pieces(k) {
			for _, q := range g.pieces(n - 1 - k) {
				out = append(out, RX{S: p.S + "|" + q.S, Nullable: p.Nullable || q.Nullable, N: n})
			}
			for _, q := range g.alts(n - 1 - k) {
				out = append(out, RX{S: p.S + "|" + q.S, Nullable: p.Nullable || q.Nullable, N: n})
			}
		}
	}
	g.altM[n] = out
	return out
}

// ---------------------------------------------------------------- independent parser

type rxParser struct {
	s       string
	i       int
	ngroups int
	closed  map[string]bool // groups (by variable name) closed so far
	names   []string        // variable names of all groups, in opening order
	hasRef  bool
	err     string
}

func parseRx(s string) (body []*T, names []string, hasRef bool, err string) {
	p := &rxParser{s: s, closed: map[string]bool{}}
	t := p.alt()
	if p.err == "" && p.i < len(p.s) {
		p.err = "trailing input"
	}
	// duplicate names would be a clash
	seen := map[string]bool{}
	for _, n := range p.names {
		if seen[n] {
			p.err = "duplicate group name"
		}
		seen[n] = true
	}
	if p.err != "" {
		return nil, nil, false, p.err
	}
	return []*T{t}, p.names, p.hasRef, ""
}

func (p *rxParser) peek() byte {
	if p.i < len(p.s) {
		return p.s[p.i]
	}
	return 0
}

func (p *rxParser) alt() *T {
	var alts []*T
	alts = append(alts, p.seq())
	for p.err == "" && p.peek() == '|' {
		p.i++
		alts = append(alts, p.seq())
	}
	t := alts[len(alts)-1]
	for i := len(alts) - 2; i >= 0; i-- {
		t = or(alts[i], t)
	}
	return t
}

func (p *rxParser) seq() *T {
	var kids []*T
	for p.err == "" && p.i < len(p.s) && p.peek() != '|' && p.peek() != ')' {
		kids = append(kids, p.piece())
	}
	return seq(kids...)
}

func (p *rxParser) piece() *T {
	a := p.atom()
	if p.err != "" || a == nil {
		return seq()
	}
	min, max, ok := 0, 0, false
	switch p.peek() {
	case '*':
		min, max, ok = 0, -1, true
		p.i++
	case '+':
		min, max, ok = 1, -1, true
		p.i++
	case '?':
		min, max, ok = 0, 1, true
		p.i++
	case '{':
		j := strings.IndexByte(p.s[p.i:], '}')
		if j < 0 {
			p.err = "unterminated {"
			return a
		}
		spec := p.s[p.i+1 : p.i+j]
		p.i += j + 1
		parts := strings.Split(spec, ",")
		min, _ = strconv.Atoi(parts[0])
		max = min
		if len(parts) == 2 {
			if parts[1] == "" {
				max = -1
			} else {
				max, _ = strconv.Atoi(parts[1])
			}
		}
		ok = true
	}
	if !ok {
		return a
	}
	fewest := false
	if p.peek() == '?' {
		fewest = true
		p.i++
	}
	return loop(min, max, fewest, a)
}

func (p *rxParser) atom() *T {
	c := p.peek()
	switch c {
	case '^':
		p.i++
		return anchor("line start", false)
	case '$':
		p.i++
		return anchor("line end", false)
	case '.':
		p.i++
		return &T{K: NOTLIT, S: "\n"}
	case '(':
		p.i++
		name := ""
		capture := true
		if strings.HasPrefix(p.s[p.i:], "?:") {
			p.i += 2
			capture = false
		} else if strings.HasPrefix(p.s[p.i:], "?<") {
			j := strings.IndexByte(p.s[p.i:], '>')
			name = p.s[p.i+2 : p.i+j]
			p.i += j + 1
		}
		if capture && name == "" {
			p.ngroups++
			name = fmt.Sprintf("_%d", p.ngroups)
		}
		if capture {
			p.names = append(p.names, name)
		}
		body := p.alt()
		if p.peek() != ')' {
			p.err = "missing )"
			return nil
		}
		p.i++
		if !capture {
			return seq(body)
		}
		p.closed[name] = true
		return seq(capt(seq(body), name))
	case '[':
		j := strings.IndexByte(p.s[p.i:], ']')
		spec := p.s[p.i+1 : p.i+j]
		p.i += j + 1
		t := &T{K: IN}
		if strings.HasPrefix(spec, "^") {
			t.Neg = true
			spec = spec[1:]
		}
		for k := 0; k < len(spec); k++ {
			if k+2 < len(spec) && spec[k+1] == '-' {
				t.Items = append(t.Items, Item{K: 1, S: spec[k : k+1], To: spec[k+2 : k+3]})
				k += 2
			} else {
				t.Items = append(t.Items, Item{K: 0, S: spec[k : k+1]})
			}
		}
		return t
	case '\\':
		p.i++
		e := p.peek()
		p.i++
		switch {
		case e == 'd':
			return class("digit", false)
		case e == 'D':
			return class("digit", true)
		case e == 's':
			return class("whitespace", false)
		case e == 'S':
			return class("whitespace", true)
		case e >= '1' && e <= '9':
			n := "_" + string([]byte{e})
			if d := p.peek(); d >= '0' && d <= '9' && p.ngroups >= int(e-'0')*10+int(d-'0') {
				// two digits name group 10..99 when that many groups exist
				n += string([]byte{d})
				p.i++
			}
			if !p.closed[n] {
				p.err = "reference to a group that is not closed yet"
			}
			p.hasRef = true
			return ref(n)
		case e == 'k':
			j := strings.IndexByte(p.s[p.i:], '>')
			n := p.s[p.i+1 : p.i+j]
			p.i += j + 1
			if !p.closed[n] {
				p.err = "reference to a group that is not closed yet"
			}
			p.hasRef = true
			return ref(n)
		}
		return lit(string([]byte{e}))
	}
	p.i++
	return lit(string([]byte{c}))
}
