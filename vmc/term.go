package main

// Term algebra for the vore search language: programs are generated as terms,
// rendered to vore source for the implementation and interpreted directly by
// the reference matcher (ref.go), so no parser is in the oracle's trusted base.

import (
	"fmt"
	"strconv"
	"strings"
)

type Kind int

const (
	LIT      Kind = iota // 's'
	CASELESS             // caseless 's'
	NOTLIT               // not 's' (single byte)
	CLASS                // any digit upper lower letter whitespace (+not)
	ANCHOR               // file/line/word start/end (+not)
	IN                   // in items / not in items
	SEQ                  // ( t ... )  a parenthesised group
	OR                   // l or r   (r may be another OR)
	LOOP                 // quantifier
	CAP                  // lit = name
	REF                  // name (back-reference)
	SUBDEF               // { t ... } = name   (inline subroutine, matches in place)
	CALL                 // name (call of an inline subroutine or later use of a global)
	GLOBAL               // name (use of `set name to pattern ...`)
)

type T struct {
	K      Kind
	S      string // literal text / class or anchor name / capture or sub name / loop name ("" = unnamed loop)
	Neg    bool
	Min    int
	Max    int // -1 = unbounded
	Fewest bool
	Kids   []*T
	Items  []Item // IN
}

type Item struct {
	K      int // 0 string, 1 range, 2 class, 3 caseless string
	S, To  string
}

// Global definition: set Name to pattern Body [begin Pred end]
type GDef struct {
	Name string
	Body []*T
	Pred string // source text of the predicate statements, "" = none
	// PredFn evaluates the predicate on the text consumed by one use of the pattern.
	PredFn func(match string) bool
}

type Prog struct {
	Defs []*GDef
	Pre  []*T // body of a `find all` command that precedes the main command (nil = none)
	Body []*T
}

func lit(s string) *T          { return &T{K: LIT, S: s} }
func seq(k ...*T) *T           { return &T{K: SEQ, Kids: k} }
func or(l, r *T) *T            { return &T{K: OR, Kids: []*T{l, r}} }
func capt(b *T, n string) *T   { return &T{K: CAP, S: n, Kids: []*T{b}} }
func ref(n string) *T          { return &T{K: REF, S: n} }
func class(n string, neg bool) *T  { return &T{K: CLASS, S: n, Neg: neg} }
func anchor(n string, neg bool) *T { return &T{K: ANCHOR, S: n, Neg: neg} }
func loop(min, max int, fewest bool, b *T) *T {
	return &T{K: LOOP, Min: min, Max: max, Fewest: fewest, Kids: []*T{b}}
}

func quote(s string) string {
	var b strings.Builder
	b.WriteByte('\'')
	for i := 0; i < len(s); i++ {
		c := s[i]
		switch {
		case c == '\'' || c == '\\':
			b.WriteByte('\\')
			b.WriteByte(c)
		case c == '\n':
			b.WriteString("\\n")
		case c == '\t':
			b.WriteString("\\t")
		case c == '\r':
			b.WriteString("\\r")
		case c < 0x20 || c >= 0x7f:
			fmt.Fprintf(&b, "\\x%02X", c)
		default:
			b.WriteByte(c)
		}
	}
	b.WriteByte('\'')
	return b.String()
}

func loopHead(t *T) string {
	switch {
	case t.Min == 0 && t.Max == 1:
		return "maybe"
	case t.Max == -1:
		return "at least " + strconv.Itoa(t.Min)
	case t.Min == 0:
		return "at most " + strconv.Itoa(t.Max)
	case t.Min == t.Max:
		return "exactly " + strconv.Itoa(t.Min)
	default:
		return fmt.Sprintf("between %d and %d", t.Min, t.Max)
	}
}

func renderItem(it Item) string {
	switch it.K {
	case 0:
		return quote(it.S)
	case 1:
		return quote(it.S) + " to " + quote(it.To)
	case 2:
		return it.S
	default:
		return "caseless " + quote(it.S)
	}
}

// isLiteralForm: can the rendered term stand where the grammar wants a `literal`
// (operand of `or`, body of `= name`)?
func isLiteralForm(t *T) bool {
	switch t.K {
	case LIT, CASELESS, NOTLIT, CLASS, ANCHOR, SEQ, REF, CALL, GLOBAL:
		return true
	}
	return false
}

func render(t *T) string {
	switch t.K {
	case LIT:
		return quote(t.S)
	case CASELESS:
		return "caseless " + quote(t.S)
	case NOTLIT:
		return "not " + quote(t.S)
	case CLASS, ANCHOR:
		if t.Neg {
			return "not " + t.S
		}
		return t.S
	case IN:
		var p []string
		for _, it := range t.Items {
			p = append(p, renderItem(it))
		}
		h := "in "
		if t.Neg {
			h = "not in "
		}
		return h + strings.Join(p, ", ")
	case SEQ:
		return "(" + renderSeq(t.Kids) + ")"
	case OR:
		return renderLitForm(t.Kids[0]) + " or " + renderOrRight(t.Kids[1])
	case CAP:
		return renderLitForm(t.Kids[0]) + " = " + t.S
	case REF, CALL, GLOBAL:
		return t.S
	case SUBDEF:
		return "{" + renderSeq(t.Kids) + "} = " + t.S
	case LOOP:
		// `maybe maybe 'a'` / `maybe in 'a', 'b'` are legal but keep the rendering unambiguous
		s := loopHead(t) + " " + renderLitForm(t.Kids[0])
		if t.Fewest {
			s += " fewest"
		}
		if t.S != "" {
			s += " named " + t.S // a named loop: its captures are reported per iteration
		}
		return s
	}
	panic("render: unknown kind")
}

func renderLitForm(t *T) string {
	if isLiteralForm(t) {
		return render(t)
	}
	return "(" + render(t) + ")"
}

func renderOrRight(t *T) string {
	if t.K == OR {
		return render(t)
	}
	return renderLitForm(t)
}

func renderSeq(s []*T) string {
	var p []string
	for _, t := range s {
		p = append(p, render(t))
	}
	return strings.Join(p, " ")
}

func (p *Prog) Source(head string) string {
	var b strings.Builder
	for _, d := range p.Defs {
		b.WriteString("set " + d.Name + " to pattern " + renderSeq(d.Body))
		if d.Pred != "" {
			b.WriteString(" begin " + d.Pred + " end")
		}
		b.WriteString("\n")
	}
	if p.Pre != nil {
		b.WriteString("find all " + renderSeq(p.Pre) + "\n")
	}
	b.WriteString(head + " " + renderSeq(p.Body))
	return b.String()
}

// kinds returns the sorted set of construct kinds used by a program (class key).
func kindsOf(ts []*T, acc map[string]bool) {
	for _, t := range ts {
		switch t.K {
		case LIT:
			acc["lit"] = true
		case CASELESS:
			acc["caseless"] = true
		case NOTLIT:
			acc["not-lit"] = true
		case CLASS:
			if t.Neg {
				acc["not-"+t.S] = true
			} else {
				acc[t.S] = true
			}
		case ANCHOR:
			if t.Neg {
				acc["not-"+t.S] = true
			} else {
				acc[t.S] = true
			}
		case IN:
			if t.Neg {
				acc["not-in"] = true
			} else {
				acc["in"] = true
			}
		case SEQ:
			acc["group"] = true
		case OR:
			acc["or"] = true
		case LOOP:
			n := "loop"
			if t.Fewest {
				n = "loop-fewest"
			}
			if t.Min > 0 {
				n += "-min"
			}
			acc[n] = true
		case CAP:
			acc["cap"] = true
		case REF:
			acc["ref"] = true
		case SUBDEF:
			acc["subdef"] = true
		case CALL:
			acc["call"] = true
		case GLOBAL:
			acc["global"] = true
		}
		kindsOf(t.Kids, acc)
	}
}

func classKey(p *Prog) string {
	acc := map[string]bool{}
	kindsOf(p.Body, acc)
	for _, d := range p.Defs {
		kindsOf(d.Body, acc)
		if d.Pred != "" {
			acc["predicate"] = true
		}
	}
	return joinSet(acc)
}

func joinSet(m map[string]bool) string {
	var ks []string
	for k := range m {
		ks = append(ks, k)
	}
	sortStrings(ks)
	return strings.Join(ks, ",")
}

// ---------------------------------------------------------------- enumerator by node count

type LoopKind struct {
	Min, Max int
	Fewest   bool
}

// Grammar of one driver: atoms (1 node each), loop kinds, switches.
type Gram struct {
	Atoms   []*T
	Loops   []LoopKind
	Or      bool
	Cap     bool // `lit = name` (names assigned at instantiation)
	Refs    int  // REF atoms #0..Refs-1 (reference to the i-th capture in generation order)
	exprM   map[int][]*T
	seqM    map[int][][]*T
	litM    map[int][]*T
	orM     map[int][]*T
}

func (g *Gram) init() {
	if g.exprM == nil {
		g.exprM, g.seqM, g.litM, g.orM = map[int][]*T{}, map[int][][]*T{}, map[int][]*T{}, map[int][]*T{}
	}
}

// Seqs returns all sequences (top-level bodies) of exactly n nodes.
func (g *Gram) Seqs(n int) [][]*T {
	g.init()
	if v, ok := g.seqM[n]; ok {
		return v
	}
	var out [][]*T
	if n > 0 {
		for _, e := range g.exprs(n) {
			out = append(out, []*T{e})
		}
		for k := 1; k < n; k++ {
			for _, e := range g.exprs(k) {
				for _, rest := range g.Seqs(n - k) {
					out = append(out, append([]*T{e}, rest...))
				}
			}
		}
	}
	g.seqM[n] = out
	return out
}

func (g *Gram) lits(n int) []*T {
	if v, ok := g.litM[n]; ok {
		return v
	}
	var out []*T
	if n == 1 {
		for _, a := range g.Atoms {
			if isLiteralForm(a) {
				out = append(out, a)
			}
		}
		for i := 0; i < g.Refs; i++ {
			out = append(out, &T{K: REF, Min: i})
		}
	} else if n > 1 {
		for _, s := range g.Seqs(n - 1) {
			out = append(out, &T{K: SEQ, Kids: s})
		}
	}
	g.litM[n] = out
	return out
}

func (g *Gram) ors(n int) []*T {
	if v, ok := g.orM[n]; ok {
		return v
	}
	var out []*T
	if g.Or {
		for k := 1; k < n-1; k++ {
			for _, l := range g.lits(k) {
				for _, r := range g.lits(n - 1 - k) {
					out = append(out, &T{K: OR, Kids: []*T{l, r}})
				}
				for _, r := range g.ors(n - 1 - k) {
					out = append(out, &T{K: OR, Kids: []*T{l, r}})
				}
			}
		}
	}
	g.orM[n] = out
	return out
}

func (g *Gram) exprs(n int) []*T {
	if v, ok := g.exprM[n]; ok {
		return v
	}
	var out []*T
	if n > 0 {
		out = append(out, g.lits(n)...)
		if n == 1 {
			for _, a := range g.Atoms {
				if !isLiteralForm(a) {
					out = append(out, a)
				}
			}
		}
		out = append(out, g.ors(n)...)
		if n >= 2 {
			if g.Cap {
				for _, b := range g.lits(n - 1) {
					if b.K != REF {
						out = append(out, &T{K: CAP, Kids: []*T{b}})
					}
				}
			}
			for _, b := range g.exprs(n - 1) {
				for _, lk := range g.Loops {
					out = append(out, &T{K: LOOP, Min: lk.Min, Max: lk.Max, Fewest: lk.Fewest, Kids: []*T{b}})
				}
			}
		}
	}
	g.exprM[n] = out
	return out
}

var capNames = []string{"x", "y", "z", "w"}

// instantiate deep-copies a raw sequence assigning capture names in generation
// order (a name is registered after its body, as the code generator does) and
// resolving REF indices. Returns nil if a REF precedes its CAP, if there are too
// many captures, or if a capture sits under a loop with min >= 1 (known finding
// F-capture-under-minloop is handled by its own driver).
func instantiate(prog []*T, needCap bool) []*T {
	ncap := 0
	ok := true
	var cp func(t *T) *T
	cp = func(t *T) *T {
		c := *t
		c.Kids = nil
		if t.K == REF {
			if t.Min >= ncap {
				ok = false
				return &c
			}
			c.S = capNames[t.Min]
			c.Min = 0
		}
		for _, kid := range t.Kids {
			c.Kids = append(c.Kids, cp(kid))
		}
		if t.K == CAP {
			if ncap >= len(capNames) {
				ok = false
				return &c
			}
			c.S = capNames[ncap]
			ncap++
		}
		return &c
	}
	var out []*T
	for _, t := range prog {
		out = append(out, cp(t))
	}
	if !ok || (needCap && ncap == 0) {
		return nil
	}
	return out
}

// texts enumerates all strings over alpha of length 0..maxLen, shortest first.
func texts(alpha string, maxLen int) []string {
	out := []string{""}
	prev := []string{""}
	for l := 1; l <= maxLen; l++ {
		var cur []string
		for _, s := range prev {
			for i := 0; i < len(alpha); i++ {
				cur = append(cur, s+string(alpha[i]))
			}
		}
		out = append(out, cur...)
		prev = cur
	}
	return out
}

func countNodes(ts []*T) int {
	n := 0
	for _, t := range ts {
		n += 1 + countNodes(t.Kids)
	}
	return n
}

func hasKind(ts []*T, k Kind) bool {
	for _, t := range ts {
		if t.K == k || hasKind(t.Kids, k) {
			return true
		}
	}
	return false
}
