package main

import (
	"fmt"
	"reflect"
	"strings"

	"github.com/jmeaster30/vore/libvore/ast"
)

var voreKeywords = map[string]bool{}

func init() {
	for _, k := range strings.Fields("find replace with set to pattern matches transform function all skip take top last any whitespace digit upper lower letter whole line file word start end begin not at least most between and exactly maybe fewest named in or if then else debug return head tail loop break continue true false caseless") {
		voreKeywords[k] = true
	}
	register(&Check{
		ID:    "C15",
		Level: "exploration",
		Rule: "deviation-bounded layout exploration: every corpus/generated program is tokenised by an independent tokenizer and re-laid-out in a minimal base layout (blank only between adjacent words); then EVERY gap between tokens (plus before the first and after the last token) x 12 fillers {blank, newline, CR LF, form feed + vertical tab, tab run, line comment, block comment, blank-wrapped block comment, empty line comment, block comment ending in ')-', multi-line block comment, block comment with parenthesised remarks followed by blanks} with 1 deviation, every pair of gaps x filler pairs with 2 deviations on programs of <= 12 tokens, every number glued to the word that follows it, and every keyword in UPPER and Title case; " +
			"oracle: accepted iff the original is, parse trees reflect.DeepEqual, Run results equal on 3 probe texts; non-trivial = distinct variants of programs the original Compile accepts",
		Assume: []string{"tokenizer vmc/corpus.go:vtokens is independent of the lexer under test", "ast nodes carry no source positions (DeepEqual compares structure)"},
		Budget: map[string]int{"quick": 150, "thorough": 1200},
		Run:    runC15,
	})
}

func isWordTok(t string) bool {
	if t == "" {
		return false
	}
	c := t[0]
	return c >= 'a' && c <= 'z' || c >= 'A' && c <= 'Z' || c >= '0' && c <= '9' || c >= 0x80
}

func lastIsWord(t string) bool {
	c := t[len(t)-1]
	return c >= 'a' && c <= 'z' || c >= 'A' && c <= 'Z' || c >= '0' && c <= '9' || c >= 0x80
}

func isNumberTok(t string) bool {
	for i := 0; i < len(t); i++ {
		if t[i] < '0' || t[i] > '9' {
			return false
		}
	}
	return t != ""
}

// layout renders tokens with the given separators: sep[i] precedes token i, sep[len] trails.
func layout(ts []string, sep []string) string {
	var b strings.Builder
	for i, t := range ts {
		b.WriteString(sep[i])
		b.WriteString(t)
		if strings.HasPrefix(t, "--") && !strings.HasPrefix(t, "--(") && !strings.HasSuffix(t, "\n") {
			b.WriteByte('\n')
		}
	}
	b.WriteString(sep[len(ts)])
	return b.String()
}

func baseSeps(ts []string) []string {
	sep := make([]string, len(ts)+1)
	for i := 1; i < len(ts); i++ {
		a, b := ts[i-1], ts[i]
		if lastIsWord(a) && isWordTok(b) {
			sep[i] = " "
		}
		// two symbol tokens that would fuse into another token keep a blank
		if (a == "=" || a == "<" || a == ">" || a == "!" || a == ":" || a == "-") && (b == "=" || b == "-" || strings.HasPrefix(b, "--")) {
			sep[i] = " "
		}
		if a == "-" && strings.HasPrefix(b, "-") {
			sep[i] = " "
		}
	}
	return sep
}

var c15Fillers = []string{" ", "\n", "\t\t", "-- c\n", "--(c)--", " --(c)-- ", "--\n", "--( x )-)--", "--(\n-- )--", "\r\n", "\f\v", "--( f(x) g(y) (1)\t)--"}

var c15Probes = []string{"aab ab 12 abc\nAb, b_1 <div>x</div>\n", "a,b\n1,22\n\n x@y.com 3.5e-2 51 6", "abba dab aabbd  aaa\n"}

type c15ref struct {
	src      string
	accepted bool
	tree     *ast.Ast
	results  []string
}

func c15Eval(src string) (r c15ref, pi *PanicInfo) {
	r.src = src
	v, err, p := compileSafe(src)
	if p != nil {
		return r, p
	}
	r.accepted = err == nil
	if !r.accepted {
		return r, nil
	}
	if p := guard(func() { r.tree, _ = ast.ParseReader(strings.NewReader(src)) }); p != nil {
		return r, p
	}
	for _, t := range c15Probes {
		stepCount, stepBudget = 0, semStepBudget
		ms, p := runSafe(v, t)
		stepBudget = 0
		if p != nil {
			r.results = append(r.results, "panic:"+p.Site)
			continue
		}
		r.results = append(r.results, strings.Join(matchRecords(ms), "|"))
	}
	return r, nil
}

func c15Compare(c *Ctx, base c15ref, variantSrc, what string) {
	c.Eval(1)
	if base.accepted {
		c.Nontrivial(1)
	}
	v, pi := c15Eval(variantSrc)
	if pi != nil {
		c.Violation("PANIC "+pi.Site, fmt.Sprintf("%s: %q panics: %s", what, variantSrc, pi.Msg), map[string]any{"kind": "layout", "src": variantSrc, "base": base.src})
		return
	}
	c.Outcome(fmt.Sprint(v.accepted))
	cls := what
	if i := strings.Index(cls, "@"); i >= 0 {
		cls = cls[:i]
	}
	if v.accepted != base.accepted {
		c.Violation("ACCEPTANCE "+cls, fmt.Sprintf("%s: %q accepted=%v but %q accepted=%v", what, variantSrc, v.accepted, base.src, base.accepted),
			map[string]any{"kind": "layout", "src": variantSrc, "base": base.src})
		return
	}
	if !base.accepted {
		return
	}
	if !reflect.DeepEqual(v.tree.Commands(), base.tree.Commands()) {
		c.Violation("TREE "+cls, fmt.Sprintf("%s: %q parses to a different tree than %q", what, variantSrc, base.src), map[string]any{"kind": "layout", "src": variantSrc, "base": base.src})
		return
	}
	if strings.Join(v.results, "\n") != strings.Join(base.results, "\n") {
		c.Violation("RESULTS "+cls, fmt.Sprintf("%s: %q gives different results than %q", what, variantSrc, base.src), map[string]any{"kind": "layout", "src": variantSrc, "base": base.src})
	}
}

// gapClass names the grammar position of a gap by its neighbouring token kinds.
func tokClass(t string) string {
	switch {
	case t == "":
		return "EDGE"
	case strings.HasPrefix(t, "'") || strings.HasPrefix(t, "\""):
		return "STR"
	case strings.HasPrefix(t, "@/"):
		return "REGEX"
	case strings.HasPrefix(t, "--"):
		return "COMMENT"
	case voreKeywords[strings.ToLower(t)]:
		return strings.ToLower(t)
	case t[0] >= '0' && t[0] <= '9':
		return "NUM"
	case isWordTok(t):
		return "ID"
	}
	return t
}

func runC15(c *Ctx) {
	installStepHook()
	corpus := corpusPrograms()
	if !c.Level("1-deviation+case") {
		return
	}
	// programs that are valid by construction in every layout below: if the original is rejected, every
	// layout is, and the comparison between layouts has nothing to compare
	for _, src := range c15MustAccept {
		src := src
		if !c.Unit(func() string { return "valid by construction: " + src }) {
			continue
		}
		c.Eval(1)
		if r, pi := c15Eval(src); pi != nil || !r.accepted {
			c.Violation("REJECTED valid", fmt.Sprintf("%q is rejected (panic %v)", src, pi), map[string]any{"kind": "compile", "src": src, "want": "accepted"})
		}
	}
	for _, prog := range corpus {
		prog := prog
		ts := vtokens(prog)
		if len(ts) == 0 || len(ts) > 400 {
			continue
		}
		// lazily computed per program, shared by its units
		var orig, base c15ref
		var sep []string
		ready, skip := false, false
		prepare := func() {
			if ready {
				return
			}
			ready = true
			c.Count("programs", 1)
			var pi *PanicInfo
			orig, pi = c15Eval(prog)
			if pi != nil {
				skip = true // C08/C09 territory
				return
			}
			sep = baseSeps(ts)
			base, pi = c15Eval(layout(ts, sep))
			if pi != nil || base.accepted != orig.accepted {
				// fall back to blanks everywhere (the minimal layout itself is compared in unit "minimal")
				base = orig
				for i := 1; i < len(ts); i++ {
					sep[i] = " "
				}
				base.src = layout(ts, sep)
			}
		}
		if c.Unit(func() string { return "minimal: " + prog }) {
			prepare()
			if !skip {
				// the minimal layout itself must mean the same as the original
				c15Compare(c, orig, layout(ts, baseSeps(ts)), "minimal-layout")
			}
		}
		for i, t := range ts {
			i, t := i, t
			if !(voreKeywords[strings.ToLower(t)] && t == strings.ToLower(t)) {
				continue
			}
			if !c.Unit(func() string { return fmt.Sprintf("case of token %d of: %s", i, prog) }) {
				continue
			}
			prepare()
			if skip {
				continue
			}
			for _, alt := range []string{strings.ToUpper(t), strings.ToUpper(t[:1]) + t[1:]} {
				t2 := append([]string{}, ts...)
				t2[i] = alt
				c15Compare(c, base, layout(t2, sep), fmt.Sprintf("case[%s]@%d", t, i))
			}
		}
		for g := 0; g <= len(ts); g++ {
			g := g
			if !c.Unit(func() string { return fmt.Sprintf("gap %d of: %s", g, prog) }) {
				continue
			}
			prepare()
			if skip {
				continue
			}
			left, right := "", ""
			if g > 0 {
				left = ts[g-1]
			}
			if g < len(ts) {
				right = ts[g]
			}
			// a number needs no blank before the word that follows it (a word cannot start with a digit)
			if isNumberTok(left) && right != "" && isWordTok(right) && !isNumberTok(right[:1]) {
				s2 := append([]string{}, sep...)
				s2[g] = ""
				c15Compare(c, base, layout(ts, s2), fmt.Sprintf("gap[NUM|%s]/glued@%d", tokClass(right), g))
			}
			for fi, f := range c15Fillers {
				s2 := append([]string{}, sep...)
				s2[g] = f
				if left == "-" && strings.HasPrefix(f, "-") {
					s2[g] = " " + f // `-` directly followed by `--` would lex as a comment start
				}
				if g == len(ts) && fi == 3 {
					s2[g] = "-- c" // a line comment may end the input without a newline
				}
				c15Compare(c, base, layout(ts, s2), fmt.Sprintf("gap[%s|%s]/filler%d@%d", tokClass(left), tokClass(right), fi, g))
			}
		}
	}
	// long fillers: the lexer reads its input through a 4096-byte buffer; a gap that pushes a token
	// (in particular a \\x escape, which needs look-ahead) across that boundary must not change it
	if c.Level("buffer-boundary") {
		progs := []string{"find all 'q' '\\x41\\x42' \"\\x43\\n\" 'z'", "set f to transform return '\\x41' + match end replace all '\\x42\\t' with f '\\x44'", "find all @/a\\/b/ '\\\\' --(c)-- 'x' -- d\n 'y'"}
		for _, prog := range progs {
			ts := vtokens(prog)
			sep := baseSeps(ts)
			base, pi := c15Eval(layout(ts, sep))
			if pi != nil || !base.accepted {
				continue
			}
			for g := 1; g < len(ts); g++ {
				g := g
				if !c.Unit(func() string { return fmt.Sprintf("long gap %d of: %s", g, prog) }) {
					continue
				}
				used := 0
				for i := 0; i < g; i++ {
					used += len(sep[i]) + len(ts[i])
				}
				for w := 4096 - used - 12; w <= 4096-used+6; w++ {
					if w < 1 {
						continue
					}
					for fi, f := range []string{strings.Repeat(" ", w), "--(" + strings.Repeat("c", w) + ")--", strings.Repeat("\n", w), "-- " + strings.Repeat("c", w) + "\n", "--(" + strings.Repeat("(c) ", w/4) + ")--"} {
						s2 := append([]string{}, sep...)
						s2[g] = f
						c15Compare(c, base, layout(ts, s2), fmt.Sprintf("longgap/filler%d@%d", fi, g))
					}
				}
			}
		}
	}
	if !c.Level("2-deviations") {
		return
	}
	maxTok := c.Pick(10, 14)
	for _, prog := range corpus {
		prog := prog
		ts := vtokens(prog)
		if len(ts) < 2 || len(ts) > maxTok {
			continue
		}
		if !c.Unit(func() string { return "pairs: " + prog }) {
			continue
		}
		sep := baseSeps(ts)
		base, pi := c15Eval(layout(ts, sep))
		if pi != nil {
			continue
		}
		for g1 := 1; g1 < len(ts); g1++ {
			for g2 := g1 + 1; g2 < len(ts); g2++ {
				c.Sub(fmt.Sprintf("pairs: gaps %d and %d of %s", g1, g2, prog))
				for f1 := range c15Fillers {
					for f2 := range c15Fillers {
						s2 := append([]string{}, sep...)
						s2[g1], s2[g2] = c15Fillers[f1], c15Fillers[f2]
						if ts[g1-1] == "-" && strings.HasPrefix(s2[g1], "-") {
							s2[g1] = " " + s2[g1]
						}
						if ts[g2-1] == "-" && strings.HasPrefix(s2[g2], "-") {
							s2[g2] = " " + s2[g2]
						}
						c15Compare(c, base, layout(ts, s2), fmt.Sprintf("gaps[%s|%s]+[%s|%s]@%d,%d", tokClass(ts[g1-1]), tokClass(ts[g1]), tokClass(ts[g2-1]), tokClass(ts[g2]), g1, g2))
					}
				}
			}
		}
	}
}

// c15MustAccept: names made of non-ASCII letters, in layouts with and without blanks around them
var c15MustAccept = []string{
	"find all (digit) = \xc3\xb1 (\xc3\xb1) maybe \xc3\xb1", "find all(digit)=\xc3\xb1(\xc3\xb1)", "find all (digit) =\n\xc3\xb1", "find all (digit) = --(c)-- \xc3\xb1",
	"set \xc3\xa9lan to pattern 'a' or 'b'\nfind all \xc3\xa9lan 'b' = a\xc3\xb1o a\xc3\xb1o", "set f to transform set \xc3\xb1 to 1 if 2 - \xc3\xb1 < \xc3\xb1 then return \xc3\xb1 end return 2 - \xc3\xb1 end\nreplace all 'a' with f",
	"find all exactly 2upper", "find skip 1take 1 'a'", "find all between 1and 2 'a'",
}
