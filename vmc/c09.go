package main

import (
	"fmt"
	"os"
	"path/filepath"
	"strings"

	"github.com/jmeaster30/vore/libvore/engine"
)

func init() {
	register(&Check{
		ID:    "C09",
		Level: "exploration",
		Rule: "every accepted program of the drivers D1 (<= 3 nodes), D2x (every primitive incl. empty literals, multi-byte `not`, multi-byte `not in` items and ranges, whole line/word/file and their negations; singles, pairs, under every loop), D3, D4 (captures, back-references to optional captures), D6, D7 (nullable bodies, empty groups), fixed named-loop / regex (\\b \\B) / recursion programs, every class alone under `in` / `not in`, process code over captures that carry the name of a built-in (10 names x every operator x 3 program shapes) x EVERY text of the driver alphabet from length 0, so every input that ends in the middle of every construct is present; " +
			"process code: every operator applied to a variable whose value comes from either branch of an `if` (all type pairs), run as transform and predicate on match texts {a,0,7,12x}; RunFiles on an empty file, a 1-byte file and a directory; oracle: Run/RunFiles return, no panic; non-trivial = distinct (program,text) runs with non-empty text",
		Assume: []string{"termination is C10's subject (a step budget aborts a spin here and reports it)"},
		Budget: map[string]int{"quick": 150, "thorough": 1500},
		Run:    runC09,
	})
}

func atomsD2x() []*T {
	in := func(neg bool, items ...Item) *T { return &T{K: IN, Neg: neg, Items: items} }
	s := func(x string) Item { return Item{K: 0, S: x} }
	extra := []*T{
		lit(""), {K: CASELESS, S: ""}, {K: NOTLIT, S: "ab"}, {K: NOTLIT, S: ""}, in(true, s("ab"), s("c")), in(true, s("")), in(false, s(""), s("a")),
		in(false, Item{K: 1, S: "aa", To: "bb"}), in(true, Item{K: 1, S: "a", To: "bb"}), in(false, Item{K: 1, S: "b", To: "a"}),
		{K: CLASS, S: "whole line"}, {K: CLASS, S: "whole word"}, {K: CLASS, S: "whole file"},
		{K: CLASS, S: "whole line", Neg: true}, {K: CLASS, S: "whole word", Neg: true}, {K: CLASS, S: "whole file", Neg: true},
		class("any", true), seq(),
	}
	for _, n := range anchorNames {
		extra = append(extra, anchor(n, false), anchor(n, true))
	}
	return append(atomsD2(), extra...)
}

var c09Fixed = []string{
	"@/\\b/", "@/\\B/", "@/a\\b/", "@/\\Ba*/", "@/(a)?\\1/", "@/(?<n>a*)\\k<n>b/", "@/()/", "@/(|a)/", "@/a||b/", "@/[]/", "@/[^]/", "@/.{0}/", "@/a{0,0}/", "@/a{2,1}/",
	"'b' (maybe 'a') = x x", "(maybe 'a') = x x x", "()", "(())", "{} = s s", "{'a' maybe s} = s s", "at least 0 ()", "exactly 0 'a'", "between 2 and 1 'a'", "at most 0 any",
	"at least 1 (maybe ('a' = x)) named r x", "at least 0 any named all", "exactly 2 any named two", "at least 1 (at least 1 (any = c) named i) named o", "maybe (any = x) named m",
	"line start whole line line end", "whole file whole file", "not whole file any", "whole word not whole word", "at least 1 whole line", "in 'a' to 'a'", "not in any", "in any, ''",
	"skip", "caseless 'Ab' caseless ''",
}

func crashUnit(c *Ctx, src string, txts []string) {
	v, err, pi := compileSafe(src)
	if pi != nil {
		c.Count("compile_panics_left_to_C08", 1)
		return
	}
	if err != nil {
		c.Count("rejected_sources", 1)
		return
	}
	c.Count("programs", 1)
	for _, t := range txts {
		c.Eval(1)
		if t != "" {
			c.Nontrivial(1)
		}
		stepCount, stepBudget = 0, semStepBudget
		ms, pi := runSafe(v, t)
		stepBudget = 0
		if pi != nil {
			if pi.Site == "STEP-BUDGET" {
				c.Count("step_budget_aborts_left_to_C10", 1)
				c.Expensive()
				return
			}
			c.Violation("RUN-PANIC "+pi.Site, fmt.Sprintf("%q on %q panics: %s", src, t, pi.Msg), map[string]any{"kind": "spans", "src": src, "text": t, "want": "?"})
			continue
		}
		c.Outcome(fmt.Sprint(len(ms)))
	}
}

func runC09(c *Ctx) {
	installStepHook()
	defer flushInstKinds(c)
	unitSrc := func(src string, txts []string) {
		if c.Unit(func() string { return src }) {
			crashUnit(c, src, txts)
		}
	}
	// D2x
	tx := texts(alphaD2, 3)
	at := atomsD2x()
	if c.Level("D2x:singles+loops") {
		for _, a := range at {
			unitSrc("find all "+render(a), tx)
			unitSrc("replace all "+render(a)+" with 'x' value", tx)
			for _, lk := range allLoopKinds {
				unitSrc("find all "+render(loop(lk.Min, lk.Max, lk.Fewest, a)), tx)
			}
		}
	}
	if c.Level("D2x:pairs") {
		for _, a := range at {
			for _, b := range at {
				unitSrc("find all "+render(a)+" "+render(b), tx)
			}
		}
	}
	if c.Level("D2x:capture+backref") {
		for _, a := range at {
			for _, lk := range []LoopKind{{0, 1, false}, {0, -1, false}, {1, -1, true}} {
				unitSrc("find all "+render(capt(seq(loop(lk.Min, lk.Max, lk.Fewest, a)), "x"))+" x 'a' x", tx)
				unitSrc("find all "+render(loop(lk.Min, lk.Max, lk.Fewest, seq(capt(seq(a), "x"))))+" x", tx)
			}
		}
	}
	if c.Level("D2x:inside-definitions") {
		for _, a := range at {
			for _, use := range []string{"('a' 'b') = v p", "'a' p", "at least 0 p", "p p", "maybe ('a' = v) p v", "{p} = s s"} {
				unitSrc("set p to pattern "+render(a)+"\nfind all "+use, tx)
				unitSrc("set q to pattern "+render(a)+"\nset p to pattern 'a' q\nfind all "+use, tx)
			}
		}
	}
	if c.Level("fixed") {
		long := append(texts("ab \n", 4), "a\r\n", "ab ab\nab", "aaaa", "a,b\n,\n")
		for _, f := range c09Fixed {
			unitSrc("find all "+f, long)
		}
		for _, f := range d6Fixed {
			unitSrc("find all "+f, long)
		}
		for _, f := range d7Named {
			unitSrc("find all "+f, long)
		}
		for _, p := range d7Fixed() {
			unitSrc(p.Source("find all"), long)
		}
		for _, np := range d5Extras() {
			unitSrc(np.P.Source("find all"), long)
		}
	}
	gr := func(name string, g *Gram, maxN int, txts []string, caps bool) {
		for n := 1; n <= maxN; n++ {
			if !c.Level(fmt.Sprintf("%s:n=%d", name, n)) {
				return
			}
			for _, raw := range g.Seqs(n) {
				body := raw
				if caps {
					body = instantiate(raw, true)
					if body == nil {
						continue
					}
				}
				unitSrc("find all "+renderSeq(body), txts)
			}
		}
	}
	// replace commands whose `with` list has no literal: some matches bind none of the named variables
	g4 := gramD4(false)
	for n := 2; n <= c.Pick(4, 5); n++ {
		if !c.Level(fmt.Sprintf("D4:replace-with-variables:n=%d", n)) {
			return
		}
		for _, raw := range g4.Seqs(n) {
			body := instantiate(raw, true)
			if body == nil {
				continue
			}
			unitSrc("replace all "+renderSeq(body)+" with x y", texts("ab", 4))
		}
	}
	if c.Level("replace-with-variables:fixed") {
		for _, b := range []string{"(digit = d) or letter", "at least 1 ('a' = x) named lp", "maybe ('a' = x) any", "any"} {
			for _, w := range []string{"d", "lp", "x", "x lp d", "nope"} {
				unitSrc("replace all "+b+" with "+w, texts("a1", 3))
				unitSrc("replace skip 1 "+b+" with "+w, texts("a1", 3))
			}
		}
	}
	if c.Level("replace:long outputs") {
		var longTexts []string
		for _, n := range []int{65, 130, 300, 1000} {
			longTexts = append(longTexts, strings.Repeat("c", n), "a"+strings.Repeat("c", n)+"a", strings.Repeat("c", n)+"a"+strings.Repeat("c", n), strings.Repeat("ab", n/2))
		}
		for _, p := range []string{"replace all 'a' with 'xyz'", "replace all 'zz' with ''", "replace all 'a' with value value value", "replace all at least 1 'c' with 'X'",
			"set big to transform set s to match loop if matchLength * 40 <= 0 then break end set s to s + s + s + s break end return s + s end\nreplace all at least 1 'c' with big", "replace last 1 'a' with ''"} {
			unitSrc(p, longTexts)
		}
	}
	gr("D7", gramD7(), c.Pick(3, 4), texts("a\n", 4), false)
	gr("D4", gramD4(false), c.Pick(4, 5), texts("ab", 4), true)
	gr("D4min", gramD4min(), c.Pick(4, 5), texts("ab", 4), true)
	gr("D3", gramD3(), c.Pick(2, 3), textsD3(4), false)
	gr("D6", gramD6(), c.Pick(2, 3), texts("a \n", 4), false)
	gr("D1", gramD1(), c.Pick(3, 4), texts("ab", 4), false)
	// process code
	runC09Process(c)
	// files
	if c.Level("files") && c.Unit(func() string { return "RunFiles on empty / 1-byte / directory" }) {
		dir, _ := os.MkdirTemp("", "vmc-c09-")
		defer os.RemoveAll(dir)
		os.WriteFile(filepath.Join(dir, "empty"), nil, 0o644)
		os.WriteFile(filepath.Join(dir, "one"), []byte("a"), 0o644)
		os.Mkdir(filepath.Join(dir, "d"), 0o755)
		os.WriteFile(filepath.Join(dir, "d", "x"), []byte("ab\nab"), 0o644)
		os.WriteFile(filepath.Join(dir, "d", "y"), nil, 0o644)
		for _, src := range []string{"replace all 'a' with 'b'\nfind all 'a'", "replace all 'a' with ''\nreplace all 'b' with 'B'\nfind all any", "find all 'a'\nfind all 'b'",
			"find all 'a'", "find all any", "replace all 'a' with 'b'", "find all line start", "find all ()", "find all whole file", "find all file end", "find last 1 at least 0 any"} {
			v, err, pi := compileSafe(src)
			if err != nil || pi != nil {
				continue
			}
			for _, target := range [][]string{{filepath.Join(dir, "empty")}, {filepath.Join(dir, "one")}, {filepath.Join(dir, "d")}, {filepath.Join(dir, "empty"), filepath.Join(dir, "one"), filepath.Join(dir, "d")}} {
				for _, pf := range []bool{false, true} {
					c.Eval(1)
					c.Nontrivial(1)
					mode := engine.NOTHING
					if !pf && len(target) == 1 && strings.HasSuffix(target[0], "one") {
						mode = engine.NEW // the 1-byte file is also searched with NEW (its .vored is written next to it)
					}
					pi := guard(func() { v.RunFiles(target, mode, pf) })
					if pi != nil {
						c.Violation("RUNFILES-PANIC "+pi.Site, fmt.Sprintf("RunFiles(%q, %v, NOTHING, processFilenames=%v) panics: %s", src, relNames(target, dir), pf, pi.Msg),
							map[string]any{"kind": "files", "src": src, "targets": relNames(target, dir)})
					}
				}
			}
		}
	}
}

// runC09Commands: sources of two commands that share stored patterns, the second laid out differently
// from the first (a name left over from the previous command must not be called at a stale address)
func runC09Commands(c *Ctx) {
	if !c.Level("two commands sharing definitions") {
		return
	}
	cmds := append(append([]string{}, c13Cmds...), "replace all ('d' = v) p with 'y' v", "replace all q ('a' = v) with v", "find all 'z' p", "find all {'b' maybe s} = s p", "replace all ('x' = v) q with 'y'")
	txts := append(texts("abd", 4), "xx", "xa", "da", "dab", "zab")
	for i, c1 := range cmds {
		for j, c2 := range cmds {
			if i == j && strings.HasPrefix(c1, "set ") {
				continue
			}
			src := c13Defs + c1 + "\n" + c2
			if !c.Unit(func() string { return c1 + " ; " + c2 }) {
				continue
			}
			crashUnit(c, src, txts)
		}
	}
}

// runC09LargeFiles: searches that move far forward and then jump back (a long attempt that fails and
// restarts one byte later, a back-reference to text read long ago) on files larger than the reader's window
func runC09LargeFiles(c *Ctx) {
	if !c.Level("files:larger than the read window") {
		return
	}
	dir, err := os.MkdirTemp("", "vmc-c09-")
	if err != nil {
		return
	}
	defer os.RemoveAll(dir)
	rep := strings.Repeat
	progs := []string{"find all 'a' at least 0 'b' fewest 'c'", "find all 'b' 'b' 'b' 'c'", "find all line start 'b' 'c'",
		"replace all 'a' with 'x'", "find all whole file", "find last 1 'b'", "find all word start any", "find all 'a' (at least 0 any fewest) = m 'a' m", "find all not in 'b', 'a' any",
		"find all file start 'abc'", "find all line start 'abc'", "find all whole line", "find all file end", "find all 'b' file end"}
	for _, size := range []int{2049, 4096, 4097, 6001, 8193, 12289} {
		contents := map[string]string{
			"ab": "a" + rep("b", size-1), "ba": rep("b", size-1) + "a", "aba": "a" + rep("b", size-2) + "a", "lines": rep("abcdefghi\n", size/10+1)[:size],
			"abab": rep("ab", size/2+1)[:size], "bcend": rep("b", size-2) + "bc",
		}
		for name, content := range contents {
			path := filepath.Join(dir, fmt.Sprintf("%s%d", name, size))
			os.WriteFile(path, []byte(content), 0o644)
			for _, src := range progs {
				src, name, size := src, name, size
				if !c.Unit(func() string { return fmt.Sprintf("%s on the %d-byte file %q", src, size, name) }) {
					continue
				}
				v, err, pi := compileSafe(src)
				if err != nil || pi != nil {
					continue
				}
				c.Eval(1)
				c.Nontrivial(1)
				if pi := guard(func() { v.RunFiles([]string{path}, engine.NOTHING, false) }); pi != nil {
					c.Violation("RUNFILES-PANIC large "+pi.Site, fmt.Sprintf("RunFiles(%q) on a %d-byte file (%s) panics: %s", src, size, name, pi.Msg),
						map[string]any{"kind": "files", "src": src, "size": size, "content": name})
				}
			}
		}
	}
}

func relNames(t []string, dir string) []string {
	var out []string
	for _, x := range t {
		out = append(out, strings.TrimPrefix(x, dir+"/"))
	}
	return out
}

// captures that carry the name of a built-in of the process language: the checker types the name
// as the built-in, the evaluator must not be handed the capture in its place
func runC09Shadow(c *Ctx) {
	if !c.Level("process:captures named like built-ins") {
		return
	}
	builtins := []string{"match", "matchLength", "matchNumber", "startOffset", "endOffset", "totalMatches", "lineNumber", "columnNumber", "value", "filename"}
	others := []string{"1", "'a'", "true", "match", "matchLength", "matchNumber"}
	ops := append(append([]string{}, binOps...), "not", "head", "tail")
	for _, b := range builtins {
		b := b
		if !c.Unit(func() string { return "a capture named " + b }) {
			continue
		}
		for _, op := range ops {
			var exprs []string
			if op == "not" || op == "head" || op == "tail" {
				exprs = []string{op + " " + b}
			} else {
				exprs = []string{b + " " + op + " " + b}
				for _, o := range others {
					exprs = append(exprs, b+" "+op+" "+o, o+" "+op+" "+b)
				}
			}
			for _, e := range exprs {
				for _, src := range []string{
					"set f to transform set r to " + e + " return 'v' + r end\nreplace all (any = " + b + ") any with f",
					"set f to transform set r to " + e + " return 'v' + r end\nreplace all any maybe ('7' = " + b + ") with f " + b,
					"set p to pattern (any = " + b + ") any begin set r to " + e + " return r == r end\nfind all p",
				} {
					v, err, pi := compileSafe(src)
					if pi != nil || err != nil {
						c.Count("rejected_sources", 1)
						continue
					}
					for _, t := range []string{"ab", "77", "a7b", "0"} {
						c.Eval(1)
						c.Nontrivial(1)
						if _, pi := runSafe(v, t); pi != nil {
							c.Violation("PROCESS-PANIC shadow "+pi.Site+" "+firstLine(pi.Msg), fmt.Sprintf("%q on %q panics: %s", src, t, pi.Msg), map[string]any{"kind": "spans", "src": src, "text": t, "want": "?"})
						}
					}
				}
			}
		}
	}
}

// process code whose variable types depend on the branch taken
func runC09Process(c *Ctx) {
	runC09Commands(c)
	runC09LargeFiles(c)
	runC09Shadow(c)
	if !c.Level("process:branch-dependent types") {
		return
	}
	vals := []struct {
		src string
		t   PT
	}{{"'a'", TStr}, {"'7'", TStr}, {"''", TStr}, {"3", TNum}, {"0", TNum}, {"true", TBool}, {"false", TBool}, {"match", TStr}, {"matchLength", TNum}}
	ops := append(append([]string{}, binOps...), "not", "head", "tail")
	texts := []string{"a", "0", "7", "12x"}
	for _, v1 := range vals {
		for _, v2 := range vals {
			v1, v2 := v1, v2
			if !c.Unit(func() string { return fmt.Sprintf("x is %s or %s depending on the branch", v1.src, v2.src) }) {
				continue
			}
			for _, op := range ops {
				for _, other := range vals {
					var exprs []string
					if op == "not" || op == "head" || op == "tail" {
						exprs = []string{op + " x"}
					} else {
						exprs = []string{"x " + op + " " + other.src, other.src + " " + op + " x"}
					}
					for _, e := range exprs {
						for _, retBool := range []bool{false, true} {
							body := fmt.Sprintf("if match == 'a' or match == '7' then set x to %s else set x to %s end ", v1.src, v2.src)
							var src string
							if retBool {
								src = "set p to pattern at least 1 any begin " + body + "set r to " + e + " return r == r end\nfind all p"
							} else {
								src = "set f to transform " + body + "set r to " + e + " return 'v' + r end\nreplace all at least 1 any with f"
							}
							v, err, pi := compileSafe(src)
							if pi != nil || err != nil {
								c.Count("rejected_sources", 1)
								continue
							}
							for _, t := range texts {
								c.Eval(1)
								c.Nontrivial(1)
								_, pi := runSafe(v, t)
								if pi == nil {
									continue
								}
								if v1.t != v2.t && strings.HasPrefix(pi.Msg, "SHOULDN'T GET HERE") && knownActive("C09", "F-dynamic-type") {
									c.KnownHit("F-dynamic-type", fmt.Sprintf("%q on %q: %s", src, t, pi.Msg), nil)
									continue
								}
								c.Violation("PROCESS-PANIC "+pi.Site+" "+firstLine(pi.Msg), fmt.Sprintf("%q on %q panics: %s", src, t, pi.Msg), map[string]any{"kind": "spans", "src": src, "text": t, "want": "?"})
							}
						}
					}
					if op == "not" || op == "head" || op == "tail" {
						break
					}
				}
			}
		}
	}
}
