package main

import (
	"encoding/json"
	"fmt"
	"os"
	"os/exec"
	"strings"
)

var ov19Dir = verifRoot + "/bin/ov19"
var vmc19Path = verifRoot + "/bin/vmc19"

// c19Run is set by c19run.go (build tag c19: it needs the symbols the overlay adds).
var c19Run func(c *Ctx)

func init() {
	register(&Check{
		ID:    "C19",
		Level: "model_checking",
		Rule: "stateless exploration of thread interleavings on the real Compile/Run under a cooperative scheduler: the harness runs one goroutine at a time and switches only at hooked points = every access to a package-level variable of libvore, also through a local variable it was assigned to (instrumentation generated from the current tree by type-checking it), every operation of a sync.Mutex/RWMutex/Once/WaitGroup/Pool in libvore (replaced by scheduler-aware shims; a blocked Lock disables the thread; the Pool shim is a deterministic free list that reports an object put while the pool already holds it), every call of a package-level function of math/rand (one locked process-wide source: a scheduling point, never a race), every VM instruction (hook H1) and call entry/exit; deviation-bounded DFS: all schedules with <= 2 preemptions (thorough: 3 for the Compile-only scenarios) of 13 scenarios (three Compiles of process code with loops, one of them with a `break` outside any loop; three Compiles of which one draws the ids of nested loops; two Runs of a FRESH program with a transform and a predicate - its first Run happens under the scheduler; three Runs with reads longer than any small buffer; two Runs of a replace with long gaps (<= 1 preemption); two Compiles with regex groups; Compile with groups || Compile without; Compile || Run; two Runs of the SAME program; three threads Compile/Compile/Run; three Compiles; Compiles of sources with transform/predicate bodies that assign resp. read unset names; three failing Compiles whose errors must keep their own token), each execution run to completion; in addition every scenario is executed once per starting thread as the FIRST thing a fresh process does (state that is initialised or grown lazily on first use is cold only then); " +
			"oracle: every call returns what it returns alone; vector-clock race check on the instrumented variables (two accesses, one a write, not ordered by program order or lock hand-over); the bytecode of a shared program, process code included (deep reflection key), must not change - whatever a Run writes into the program another Run reads unsynchronised; no pool misuse; no deadlock; states = executions explored, transitions = scheduling points executed; every execution is an implementation trace",
		Assume: []string{"memory-model effects and accesses to heap objects that are neither package-level variables nor visible in results/bytecode are outside the explorer's alphabet", "a free-running -race pass of the same scenario bodies is supporting evidence only"},
		Budget: map[string]int{"quick": 200, "thorough": 1500},
		Shards:    6,
		UnitLimit: 3600e9, // a unit is a whole scenario x bound exploration; livelocks are caught per execution (point horizon)
		Run: func(c *Ctx) {
			if c19Run == nil {
				panic("C19 worker must be the overlay build (vmc19)")
			}
			c19Run(c)
		},
		WorkerBin: vmc19Path,
		Replay: func(rec map[string]any) {
			if rec["kind"] != "schedule" {
				fmt.Printf("record: %v\n", rec["desc"])
				return
			}
			if err := checks["C19"].Prepare(); err != nil {
				fmt.Println(err)
				os.Exit(2)
			}
			b, _ := json.Marshal(rec)
			f, _ := os.CreateTemp("", "c19replay-*.json")
			f.Write(b)
			f.Close()
			defer os.Remove(f.Name())
			cmd := exec.Command(vmc19Path, "c19replay", f.Name())
			cmd.Stdout, cmd.Stderr = os.Stdout, os.Stderr
			if err := cmd.Run(); err != nil {
				os.Remove(f.Name())
				os.Exit(1)
			}
		},
		Prepare: func() error {
			globals, err := instrumentTree(ov19Dir)
			if err != nil {
				return fmt.Errorf("instrumentation failed: %v", err)
			}
			fmt.Printf("C19: package-level variables of libvore: %v\n", globals)
			cmd := exec.Command("go", "build", "-tags", "verif c19", "-overlay", ov19Dir+"/overlay.json", "-o", vmc19Path, ".")
			cmd.Dir = verifRoot + "/vmc"
			out, err := cmd.CombinedOutput()
			if err != nil {
				return fmt.Errorf("building the instrumented harness failed: %v\n%s", err, out)
			}
			// supporting pass: the same calls free-running under the race detector (needs cgo; skipped if it cannot be built)
			os.Remove(verifRoot + "/bin/racepass")
			rc := exec.Command("go", "build", "-race", "-tags", "verif", "-o", verifRoot+"/bin/racepass", "./racepass")
			rc.Dir = verifRoot + "/vmc"
			var env []string
			for _, e := range os.Environ() {
				if !strings.HasPrefix(e, "CGO_ENABLED=") {
					env = append(env, e)
				}
			}
			rc.Env = append(env, "CGO_ENABLED=1")
			if ov := os.Getenv("VERIF_OVERLAY"); ov != "" {
				rc.Args = append(rc.Args[:2], append([]string{"-overlay", ov}, rc.Args[2:]...)...)
			}
			if out, err := rc.CombinedOutput(); err != nil {
				fmt.Printf("C19: race-detector pass not built (%v): %.200s\n", err, out)
			}
			return nil
		},
		Post: func(a *Agg, cov map[string]any) {
			cov["states"] = a.Counters["executions"]
			cov["transitions"] = a.Counters["sched_points"]
			cov["traces_validated_against_impl"] = a.Counters["executions"]
			cov["explanation"] = "explored directly on the implementation under a controlled scheduler; each schedule is replayed a second time and must reproduce its observations"
			if b, err := os.ReadFile(ov19Dir + "/globals.txt"); err == nil {
				cov["package_level_variables"] = strings.Fields(string(b))
			}
		},
	})
}
