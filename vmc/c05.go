package main

import (
	"fmt"
	"strconv"
	"strings"

	"github.com/jmeaster30/vore/libvore/engine"
)

// C05: a replacement is the concatenation of its `with` items for that match.

type withItem struct {
	src string
	// val computes the contribution of the item from the match record itself.
	val func(m engine.Match, vars map[string]string, total int) string
}

const c05Transforms = `set t1 to transform return match + matchNumber end
set t2 to transform return matchLength * 2 end
set t3 to transform if x == 'a' then return 'A' end return x + '!' end
set t4 to transform
  set n to matchNumber + matchLength
  if n > 2 then return head match end
  return tail match + y
end
set t5 to transform set match to match + '!' set seen to 'S' return match end
set t6 to transform set x to 'Q' + x set matchNumber to 7 return x end
set t7 to transform return seen + '|' + x + '|' + matchNumber end
set t8 to transform return '' + startOffset + '-' + endOffset + '/' + totalMatches + ':' + lineNumber + ',' + columnNumber + '=' + value + '@' + filename end
set t9 to transform set i to 0 loop if i >= matchLength then break end if i == 1 then return 'R' + i end set i to i + 1 end return 'E' + i end
set t10 to transform if matchNumber == 1 then set x to 'N' end if matchLength > 5 then set startOffset to 'S' end return x + '.' + startOffset end
set pcap to pattern (any = x)
set pcap2 to pattern ('a' = x) or (any = y)
`

func c05Items() []withItem {
	cap := func(n string) withItem {
		return withItem{n, func(m engine.Match, v map[string]string, _ int) string { return v[n] }}
	}
	head := func(s string) string {
		if len(s) == 0 {
			return ""
		}
		return s[:1]
	}
	tail := func(s string) string {
		if len(s) <= 1 {
			return ""
		}
		return s[1:]
	}
	return []withItem{
		{"'-'", func(engine.Match, map[string]string, int) string { return "-" }},
		{`"q\n"`, func(engine.Match, map[string]string, int) string { return "q\n" }},
		cap("x"), cap("y"),
		{"caseless 'Ab\\tC'", func(engine.Match, map[string]string, int) string { return "Ab\tC" }}, // `caseless` means nothing in a replacement: the text as spelled
		{"value", func(m engine.Match, _ map[string]string, _ int) string { return m.Value }},
		{"matchNumber", func(m engine.Match, _ map[string]string, _ int) string { return strconv.Itoa(m.MatchNumber) }},
		{"startOffset", func(m engine.Match, _ map[string]string, _ int) string { return strconv.Itoa(m.Offset.Start) }},
		{"endOffset", func(m engine.Match, _ map[string]string, _ int) string { return strconv.Itoa(m.Offset.End) }},
		{"lineNumber", func(m engine.Match, _ map[string]string, _ int) string { return strconv.Itoa(m.Line.Start) }},
		{"columnNumber", func(m engine.Match, _ map[string]string, _ int) string { return strconv.Itoa(m.Column.Start) }},
		{"totalMatches", func(_ engine.Match, _ map[string]string, total int) string { return strconv.Itoa(total) }},
		{"filename", func(m engine.Match, _ map[string]string, _ int) string { return m.Filename }},
		{"nope", func(engine.Match, map[string]string, int) string { return "" }},
		{"lp", func(engine.Match, map[string]string, int) string { return "" }}, // names a named loop (a map, not text) where one exists: contributes nothing
		{"t1", func(m engine.Match, _ map[string]string, _ int) string { return m.Value + strconv.Itoa(m.MatchNumber) }},
		{"t2", func(m engine.Match, _ map[string]string, _ int) string { return strconv.Itoa(len(m.Value) * 2) }},
		{"t3", func(m engine.Match, v map[string]string, _ int) string {
			if v["x"] == "a" {
				return "A"
			}
			return v["x"] + "!"
		}},
		{"t4", func(m engine.Match, v map[string]string, _ int) string {
			if m.MatchNumber+len(m.Value) > 2 {
				return head(m.Value)
			}
			return tail(m.Value) + v["y"]
		}},
		{"t5", func(m engine.Match, _ map[string]string, _ int) string { return m.Value + "!" }},
		{"t6", func(_ engine.Match, v map[string]string, _ int) string { return "Q" + v["x"] }},
		{"t7", func(m engine.Match, v map[string]string, _ int) string { return "|" + v["x"] + "|" + strconv.Itoa(m.MatchNumber) }},
		{"t10", func(m engine.Match, v map[string]string, _ int) string {
			x := v["x"]
			if m.MatchNumber == 1 {
				x = "N" // assigned on this path only: the other matches read the capture
			}
			return x + "." + strconv.Itoa(m.Offset.Start)
		}},
		{"t9", func(m engine.Match, _ map[string]string, _ int) string {
			if len(m.Value) >= 2 {
				return "R1" // the `return` inside the loop ends the transform
			}
			return "E" + strconv.Itoa(len(m.Value))
		}},
		{"t8", func(m engine.Match, _ map[string]string, total int) string {
			return fmt.Sprintf("%d-%d/%d:%d,%d=%s@%s", m.Offset.Start, m.Offset.End, total, m.Line.Start, m.Column.Start, m.Value, m.Filename)
		}},
	}
}

var c05Bodies = []string{
	"any = x", "(any = x) maybe (any = y)", "('a' = x) or ('b' = y)", "at least 1 'a'", "(at least 1 'a') = x 'b'", "any",
	"pcap maybe (any = y)", "pcap2 maybe pcap2", "at least 1 ('a' = x) named lp maybe (any = y)",
	"(at least 1 digit) = x maybe ('a' = y)", "(digit = x) (maybe digit) = y",
	"(maybe 'a') = x ('b' or '\\n') = y", "(any = y) maybe (y = x)", "at least 1 ((any = x) (any = y))", "'a' (at least 0 any fewest) = y 'b'",
}

func init() {
	register(&Check{
		ID:    "C05",
		Level: "exploration",
		Rule: "every `with` list of length 1..k over 24 items (2 string literals, a `caseless` literal, captures x y, the 8 built-ins, an undefined name, 10 transforms (one returning from inside a loop, one assigning a capture and a built-in on some paths only) reading and ASSIGNING match / matchNumber / captures / locals and reading every built-in) x 14 bodies (two with the captures declared inside `set .. to pattern` definitions, two capturing digits) with 0-2 captures whose values differ between matches x every text over {a,b,\\n} up to the length bound and over {0,7} up to length 3; " +
			"expected replacement = concatenation of the items computed from the match record itself, and the matches must equal those of `find all` with the same body; non-trivial = distinct (list,body,text) triples with at least 2 matches",
		Assume: []string{"the four transforms are fixed; the general evaluator is C11's subject", "Run(string) reports filename 'text'"},
		Budget: map[string]int{"quick": 120, "thorough": 1200},
		Run:    runC05,
	})
}

// c05Redefinitions: a name defined again later in the source; every command uses the definition in force where it stands.
func c05Redefinitions(c *Ctx) {
	if !c.Level("redefinition") {
		return
	}
	srcs := []struct {
		src  string
		want map[string]string // matched text -> replacement
	}{
		{"set t to transform return '<' + match + '>' end\nreplace all 'a' with t\nset t to transform return '[' + match + ']' end\nreplace all 'b' with t", map[string]string{"a": "<a>", "b": "[b]"}},
		{"set t to transform return 'one' end\nreplace all 'a' with t t\nset t to transform return 'two' + matchNumber end\nreplace all 'b' with t '-' t\nreplace all 'a' with t", map[string]string{}},
		{"set p to pattern 'a'\nset t to transform return 'P' end\nreplace all p with t\nset p to pattern 'b'\nreplace all p with t 'q'", map[string]string{"a": "P", "b": "Pq"}},
	}
	for _, sc := range srcs {
		sc := sc
		if !c.Unit(func() string { return sc.src }) {
			continue
		}
		v, err, pi := compileSafe(sc.src)
		if err != nil || pi != nil {
			c.Violation("COMPILE redefinition", fmt.Sprintf("%q rejected: %v %v", sc.src, err, pi), map[string]any{"kind": "compile", "src": sc.src, "want": "accepted"})
			continue
		}
		// expected: every command compiled alone with the definitions that precede it
		lines := strings.Split(sc.src, "\n")
		for _, t := range texts("ab", 4) {
			c.Eval(1)
			got, pi := runSafe(v, t)
			var want []string
			var defs []string
			for _, ln := range lines {
				if strings.HasPrefix(ln, "set ") {
					defs = append(defs, ln)
					continue
				}
				// later definitions of a name override earlier ones: keep only the last definition of each name
				last := map[string]string{}
				var order []string
				for _, d := range defs {
					n := strings.Fields(d)[1]
					if _, ok := last[n]; !ok {
						order = append(order, n)
					}
					last[n] = d
				}
				var pre []string
				for _, n := range order {
					pre = append(pre, last[n])
				}
				av, _, _ := compileSafe(strings.Join(append(pre, ln), "\n"))
				ms, _ := runSafe(av, t)
				want = append(want, matchRecords(ms)...)
			}
			if len(want) > 0 {
				c.Nontrivial(1)
			}
			if pi != nil || strings.Join(matchRecords(got), "\n") != strings.Join(want, "\n") {
				c.Violation("REDEFINITION", fmt.Sprintf("%q on %q: got %v (panic %v), each command with the definitions in force where it stands gives %v", sc.src, t, matchRecords(got), pi, want),
					map[string]any{"kind": "records", "src": sc.src, "text": t, "want": want})
			}
		}
	}
}

func runC05(c *Ctx) {
	c05Redefinitions(c)
	items := c05Items()
	txts := texts("ab\n", c.Pick(3, 4))
	// captures that look like numbers (a transform handles a capture as text: leading zeros stay, `+` concatenates)
	txts = append(txts, texts("07", 3)[1:]...)
	txts = append(txts, "22a", "007", "a10", "9")
	var lists [][]int
	for i := range items {
		lists = append(lists, []int{i})
	}
	for i := range items {
		for j := range items {
			lists = append(lists, []int{i, j})
		}
	}
	n2 := len(lists)
	for i := range items {
		for j := range items {
			for k := range items {
				lists = append(lists, []int{i, j, k})
			}
		}
	}
	for bi, body := range c05Bodies {
		// reference: find all with the same body
		findSrc := c05Transforms + "find all " + body
		fv, err, pi := compileSafe(findSrc)
		if err != nil || pi != nil {
			if c.Unit(func() string { return findSrc }) {
				c.Violation("COMPILE", fmt.Sprintf("%q rejected: %v %v", findSrc, err, pi), map[string]any{"kind": "compile", "src": findSrc, "want": "accepted"})
			}
			continue
		}
		lim := len(lists)
		if c.Quick() && bi >= 3 {
			lim = n2 // quick: triples only for the first three bodies
		}
		if !c.Level(fmt.Sprintf("body%d", bi)) {
			return
		}
		for li := 0; li < lim; li++ {
			l := lists[li]
			var parts []string
			for _, i := range l {
				parts = append(parts, items[i].src)
			}
			// lists of one or two items are also run under amount clauses that do not start at the first match
			head := "replace all "
			if len(l) <= 2 {
				head = []string{"replace all ", "replace skip 1 ", "replace last 2 ", "replace skip 1 take 1 "}[li%4]
			}
			src := c05Transforms + head + body + " with " + strings.Join(parts, " ")
			if !c.Unit(func() string { return head + body + " with " + strings.Join(parts, " ") }) {
				continue
			}
			v, err, pi := compileSafe(src)
			if err != nil || pi != nil {
				c.Violation("COMPILE", fmt.Sprintf("%q rejected: %v %v", src, err, pi), map[string]any{"kind": "compile", "src": src, "want": "accepted"})
				continue
			}
			for _, t := range txts {
				c.Eval(1)
				ms, pi := runSafe(v, t)
				fm, pi2 := runSafe(fv, t)
				total := len(fm)
				switch head {
				case "replace skip 1 ":
					if len(fm) > 1 {
						fm = fm[1:]
					} else {
						fm = nil
					}
				case "replace last 2 ":
					if len(fm) > 2 {
						fm = fm[len(fm)-2:]
					}
				case "replace skip 1 take 1 ":
					if len(fm) > 1 {
						fm = fm[1:2]
					} else {
						fm = nil
					}
				}
				_ = total
				if pi != nil || pi2 != nil {
					c.Violation("RUN-PANIC", fmt.Sprintf("%q on %q panics: %v %v", src, t, pi, pi2), map[string]any{"kind": "replace", "src": src, "text": t})
					continue
				}
				if len(ms) >= 2 {
					c.Nontrivial(1)
				}
				if len(ms) != len(fm) {
					c.Violation("MATCHES-DIFFER", fmt.Sprintf("%q on %q: %d matches, find all gives %d", src, t, len(ms), len(fm)), map[string]any{"kind": "replace", "src": src, "text": t})
					continue
				}
				for i, m := range ms {
					f := fm[i]
					f.Replacement = m.Replacement
					if matchRecord(f) != matchRecord(m) {
						c.Violation("MATCHES-DIFFER", fmt.Sprintf("%q on %q: match %d is %s, find all gives %s", src, t, i, matchRecord(m), matchRecord(fm[i])), map[string]any{"kind": "replace", "src": src, "text": t})
						break
					}
					vars := stringVars(m)
					want := ""
					for _, ii := range l {
						want += items[ii].val(m, vars, len(ms))
						if items[ii].src == "totalMatches" && head != "replace all " {
							want = "" // totalMatches under a window is not fixed by the documentation
						}
					}
					got := m.Replacement.GetValueOrDefault("")
					c.Outcome(got)
					skipTotal := false
					for _, ii := range l {
						if items[ii].src == "totalMatches" && head != "replace all " {
							skipTotal = true
						}
					}
					if got != want && !skipTotal {
						c.Violation("REPLACEMENT "+strings.Join(parts, " "), fmt.Sprintf("%q on %q: match %d (%s) replacement %q, want %q", "replace all "+body+" with "+strings.Join(parts, " "), t, i, matchRecord(f), got, want),
							map[string]any{"kind": "replace", "src": src, "text": t, "match": i, "want": want})
						break
					}
				}
			}
		}
	}
}
