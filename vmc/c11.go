package main

import (
	"fmt"
	"reflect"
	"strings"

	"github.com/jmeaster30/vore/libvore/ast"
)

func init() {
	register(&Check{
		ID:    "C11",
		Level: "exploration",
		Rule: "(1) operator table: every binary operator x every (lhs,rhs) over 23 operand expressions {0,1,2,10,(0-3),'', 'a','b','2','10','x1','010','0x10','1_0','-5','+5',' 5','1e1',true,false,match,matchLength,an unset variable} and every unary operator x every operand, restricted to cells the documented typing accepts, each evaluated on four match texts ('12', 'k', '010' and a text starting with a 2-byte character); results observed through a transform's replacement (values) and through if/predicate (booleans); every expression reading the unset variable also after three kinds of preceding statements; divisor 0 excluded (C09); " +
			"(2) trees: every expression tree with <= 2 binary operators over leaves {2,3,'a',true,match} and with 3 operators over {2,'a',true} (thorough: plus 3) in every shape and operator assignment the typing accepts, rendered with minimal and with full parentheses: both must parse to the same tree and evaluate to the reference value; " +
			"oracle: an independent evaluator written from the two documented tables; non-trivial = distinct (expression,text) evaluations whose operands have different types or whose tree has >= 2 operators",
		Assume: []string{"== / != vs < > <= >= relative precedence is not fixed by the documentation: trees mixing the two groups are excluded"},
		Budget: map[string]int{"quick": 120, "thorough": 900},
		Run:    runC11,
	})
}

var c11Texts = []string{"12", "k", "010", "\xc3\xa91", "false", "0"}

func c11Env(text string) map[string]PV {
	return map[string]PV{"match": pvS(text), "matchLength": pvN(len(text)), "matchNumber": pvN(1)}
}

func c11Operands() []*PE {
	return []*PE{leafNum(0), leafNum(1), leafNum(2), leafNum(10), bin("-", leafNum(0), leafNum(3)),
		leafStr(""), leafStr("a"), leafStr("b"), leafStr("0"), leafStr("false"), leafStr("2"), leafStr("10"), leafStr("x1"),
		leafNum(9223372036854775807), bin("-", leafNum(0), leafNum(9223372036854775807)),
		leafStr("010"), leafStr("0x10"), leafStr("1_0"), leafStr("-5"), leafStr("+5"), leafStr(" 5"), leafStr("1e1"),
		leafBool(true), leafBool(false), leafVar("match", TStr), leafVar("matchLength", TNum), leafVar("unset", TStr)}
}

var binOps = []string{"+", "-", "*", "/", "%", "==", "!=", "<", ">", "<=", ">=", "and", "or"}

// c11Observe compiles a transform (and a predicate for booleans) around the
// expression and returns what the implementation computes, as a string.
func c11Observe(c *Ctx, e *PE, t PT, exprSrc string, text string) (string, bool) {
	got, ok := c11ObserveWith(c, e, t, exprSrc, text, "")
	if ok && strings.Contains(exprSrc, "unset") {
		// a name that was never set is the empty string wherever it is read: also after other
		// statements have left a number, a boolean or a string behind, and inside an `if`
		for _, pre := range []string{"set zn to 5 ", "set zb to 1 == 1 set zs to 'q' ", "if matchLength >= 0 then set zn to 2 * 3 end "} {
			g2, ok2 := c11ObserveWith(c, e, t, exprSrc, text, pre)
			if ok2 && g2 != got {
				return g2, true // reported by the caller against the documented value
			}
		}
	}
	return got, ok
}

func c11ObserveWith(c *Ctx, e *PE, t PT, exprSrc string, text string, pre string) (string, bool) {
	var src string
	if t == TBool {
		src = "set f to transform " + pre + "if " + exprSrc + " then return 'T' end return 'F' end\nreplace all at least 1 any with f"
	} else {
		src = "set f to transform " + pre + "return " + exprSrc + " end\nreplace all at least 1 any with f"
	}
	v, err, pi := compileSafe(src)
	if pi != nil || err != nil {
		c.Violation("REJECTED "+t.String(), fmt.Sprintf("well-typed expression rejected: %q: %v %v", exprSrc, err, pi), map[string]any{"kind": "compile", "src": src, "want": "accepted"})
		return "", false
	}
	ms, pi := runSafe(v, text)
	if pi != nil || len(ms) != 1 {
		c.Violation("RUN "+opOf(e), fmt.Sprintf("%q on %q: panic %v, %d matches", src, text, pi, len(ms)), map[string]any{"kind": "expr", "src": src, "text": text})
		return "", false
	}
	got := ms[0].Replacement.GetValueOrDefault("")
	if t == TBool {
		// the same boolean must decide a predicate
		psrc := "set p to pattern at least 1 any begin " + pre + "return " + exprSrc + " end\nfind all p"
		pv, err, pi := compileSafe(psrc)
		if pi != nil || err != nil {
			c.Violation("REJECTED predicate", fmt.Sprintf("well-typed predicate rejected: %q: %v %v", psrc, err, pi), map[string]any{"kind": "compile", "src": psrc, "want": "accepted"})
			return "", false
		}
		pm, pi := runSafe(pv, text)
		pres := "F"
		if len(pm) > 0 && pm[0].Offset.Start == 0 && pm[0].Offset.End == len(text) {
			pres = "T" // the full-length attempt (the first one a greedy loop makes) was accepted
		}
		if pi != nil || pres != got {
			// a false predicate makes the greedy loop backtrack: any shorter match still means the full-length one was refused
			c.Violation("PREDICATE-DIFFERS "+opOf(e), fmt.Sprintf("%q: transform sees %s, predicate %s (panic %v) on %q", exprSrc, got, pres, pi, text), map[string]any{"kind": "expr", "src": psrc, "text": text})
			return "", false
		}
	}
	return got, true
}

func opOf(e *PE) string {
	if e.Op == "" {
		return "leaf"
	}
	if e.L == nil {
		return e.Op
	}
	return e.Op + " lhs=" + typeOf(e.L).String()
}

func c11Case(c *Ctx, e *PE, nontrivial bool) {
	t := typeOf(e)
	if t == TErr || t == TDontCare {
		return
	}
	for _, text := range c11Texts {
		env := c11Env(text)
		want, ok := evalPE(e, env)
		if !ok {
			c.Count("division_by_zero_excluded", 1)
			continue
		}
		c.Eval(1)
		if nontrivial {
			c.Nontrivial(1)
		}
		ws := want.str()
		if t == TBool {
			ws = "F"
			if want.boolean() {
				ws = "T"
			}
		}
		got, ok := c11Observe(c, e, t, e.renderMin(), text)
		if !ok {
			continue
		}
		c.Outcome(got)
		if got != ws {
			c.Violation("VALUE "+opOf(e)+" rhs="+rhsType(e), fmt.Sprintf("`%s` with match=%q evaluates to %q, the documented tables give %q", e.renderMin(), text, got, ws),
				map[string]any{"kind": "expr", "expr": e.renderMin(), "text": text, "want": ws})
		}
	}
}

func rhsType(e *PE) string {
	if e.R == nil {
		return "-"
	}
	return typeOf(e.R).String()
}

func parseExprTree(exprSrc string, t PT) (any, error) {
	src := "set f to transform return " + exprSrc + " end"
	if t == TBool {
		src = "set p to pattern 'a' begin return " + exprSrc + " end"
	}
	var tree *ast.Ast
	var err error
	if pi := guard(func() { tree, err = ast.ParseReader(strings.NewReader(src)) }); pi != nil {
		return nil, fmt.Errorf("panic %s", pi.Msg)
	}
	if err != nil {
		return nil, err
	}
	return tree.Commands(), nil
}

func runC11(c *Ctx) {
	ops := c11Operands()
	if c.Level("table:binary") {
		for _, op := range binOps {
			for li, l := range ops {
				op, l, li := op, l, li
				if !c.Unit(func() string { return fmt.Sprintf("%s %s <every rhs>", l.renderMin(), op) }) {
					continue
				}
				for ri, r := range ops {
					lhs, rhs := l, r
					if lhs.Op != "" {
						lhs = l // compound operand keeps its own parentheses via renderMin
					}
					e := bin(op, lhs, rhs)
					c11Case(c, e, typeOf(l) != typeOf(r) || li != ri)
				}
			}
		}
	}
	if c.Level("table:unary") {
		for _, op := range []string{"not", "head", "tail"} {
			for _, x := range ops {
				op, x := op, x
				if c.Unit(func() string { return op + " " + x.renderMin() }) {
					c11Case(c, un(op, x), true)
					// unary applied to a comparison / concatenation
					c11Case(c, un(op, bin("==", x, leafStr("a"))), true)
					c11Case(c, un(op, bin("+", leafStr("q"), x)), true)
					// head and tail together must give the operand back, byte for byte
					c11Case(c, bin("+", un("head", x), un("tail", x)), true)
					c11Case(c, un(op, un("tail", bin("+", x, leafVar("match", TStr)))), true)
				}
			}
		}
	}
	// (2) trees
	leaves := []*PE{leafNum(2), leafNum(3), leafStr("a"), leafBool(true), leafVar("match", TStr), leafStr("")}
	maxOps := 3
	var trees func(n int) []*PE
	memo := map[int][]*PE{}
	trees = func(n int) []*PE {
		if v, ok := memo[n]; ok {
			return v
		}
		var out []*PE
		if n == 0 {
			out = leaves
		} else {
			for k := 0; k < n; k++ {
				for _, l := range trees(k) {
					for _, r := range trees(n - 1 - k) {
						for _, op := range binOps {
							e := bin(op, l, r)
							if t := typeOf(e); t == TErr || t == TDontCare {
								continue
							}
							out = append(out, e)
						}
					}
				}
			}
		}
		memo[n] = out
		return out
	}
	mixes := func(e *PE) bool { // == / != together with < > <= >= : relative precedence undocumented
		eq, rel := false, false
		var w func(x *PE)
		w = func(x *PE) {
			if x == nil || x.Op == "" {
				return
			}
			if x.Op == "==" || x.Op == "!=" {
				eq = true
			}
			if x.Op == "<" || x.Op == ">" || x.Op == "<=" || x.Op == ">=" {
				rel = true
			}
			w(x.L)
			w(x.R)
		}
		w(e)
		return eq && rel
	}
	for n := 2; n <= maxOps; n++ {
		if !c.Level(fmt.Sprintf("trees:ops=%d", n)) {
			return
		}
		for _, e := range trees(n) {
			e := e
			if mixes(e) {
				continue
			}
			if n == 3 {
				// depth 3: trees over the leaves {2,'a',true} (thorough: also 3) to keep the product affordable
				if strings.Contains(e.renderFull(), "match") || strings.Contains(e.renderFull(), "''") || (c.Quick() && strings.Contains(e.renderFull(), "3")) {
					continue
				}
			}
			if !c.Unit(func() string { return e.renderMin() }) {
				continue
			}
			t := typeOf(e)
			minT, err1 := parseExprTree(e.renderMin(), t)
			fullT, err2 := parseExprTree(e.renderFull(), t)
			c.Eval(1)
			if err1 != nil || err2 != nil {
				c.Violation("TREE-REJECTED", fmt.Sprintf("`%s` / `%s`: %v %v", e.renderMin(), e.renderFull(), err1, err2), map[string]any{"kind": "expr", "expr": e.renderMin()})
				continue
			}
			if !reflect.DeepEqual(minT, fullT) {
				c.Violation("PRECEDENCE "+e.Op+"/"+childOps(e), fmt.Sprintf("`%s` does not parse to the tree of `%s`", e.renderMin(), e.renderFull()), map[string]any{"kind": "expr", "expr": e.renderMin(), "full": e.renderFull()})
				continue
			}
			c11Case(c, e, true)
		}
	}
}

func childOps(e *PE) string {
	s := ""
	if e.L != nil && e.L.Op != "" {
		s += "L:" + e.L.Op
	}
	if e.R != nil && e.R.Op != "" {
		s += " R:" + e.R.Op
	}
	return s
}
