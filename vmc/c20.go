package main

import (
	"fmt"
	"os"
	"path/filepath"
	"sort"
	"strings"

	"github.com/jmeaster30/vore/libvore/files"
)

func init() {
	register(&Check{
		ID:    "C20",
		Level: "exploration",
		Rule: "(1) one real directory holding a regular file for EVERY name of <= 4 (thorough 5) chars over {a,b,.} (except . and ..) and two sub-directories whose names also match, x EVERY pattern of <= 5 (thorough 6) chars over {a,b,.,*} with at most 3 stars; (1b) one real directory holding a file for every name of <= 3 chars over {a,1,[,],?,backslash,-,^} x every pattern of <= 4 chars over these and `*` (every character but the star is literal); (1c) a directory with symbolic links to a directory (relative and absolute), to a nested directory, to a regular file and to nothing x 8 file segments x 11 directory segments at depth 1-3, relative and absolute: a link counts as what it points to; (1d) directories with every number of entries 0..300 (thorough 600) and around 512, 768, 1024 on the pattern's route x 7 patterns; (1e) six patterns, relative and absolute, asked again after files and directories were added and removed (the answer must be that of a freshly parsed pattern); (2) a real tree of depth 3 whose directory and file names range over {a,b,ab,ba} x every pattern of 1-3 segments over directory segments {a,b,ab,a*,*b,*a*,b*} and file segments {a,b,ab,a*,*b,a*b,*a*,*,**}, relative and absolute; " +
			"oracle: a reference matcher (`*` = any run within a segment, segments matched one to one) applied to a walk of the tree; the returned list must equal it as a set, without duplicates and without directories; non-trivial = distinct (pattern,tree) pairs whose expected set is non-empty and not everything",
		Assume: []string{"directory segments made only of stars and `.`/`..` segments are excluded, as the property says"},
		Budget: map[string]int{"quick": 120, "thorough": 900},
		Run:    runC20,
	})
}

// globMatch: `*` stands for any run of characters (also none).
func globMatch(pat, name string) bool {
	if pat == "" {
		return name == ""
	}
	if pat[0] == '*' {
		for i := 0; i <= len(name); i++ {
			if globMatch(pat[1:], name[i:]) {
				return true
			}
		}
		return false
	}
	return name != "" && pat[0] == name[0] && globMatch(pat[1:], name[1:])
}

func c20Compare(c *Ctx, root, pattern string, absolute bool, allFiles []string, what string) {
	segs := strings.Split(pattern, "/")
	var want []string
	for _, f := range allFiles {
		fs := strings.Split(f, "/")
		if len(fs) != len(segs) {
			continue
		}
		ok := true
		for i := range segs {
			if !globMatch(segs[i], fs[i]) {
				ok = false
				break
			}
		}
		if ok {
			want = append(want, f)
		}
	}
	sort.Strings(want)
	arg := pattern
	if absolute {
		arg = root + "/" + pattern
	}
	c.Eval(1)
	if len(want) > 0 && len(want) < len(allFiles) {
		c.Nontrivial(1)
	}
	var got []string
	start := root
	if absolute && len(pattern)%2 == 1 {
		start = "/nonexistent-start-directory" // an absolute pattern does not depend on where the walk is started
	}
	var again, third []string
	pi := guard(func() {
		// a parsed pattern is a value: asking it again, also from another start directory, changes nothing
		pp := files.ParsePath(arg)
		got = pp.GetFileList(start)
		again = pp.GetFileList(start)
		if absolute {
			third = pp.GetFileList(root)
		}
	})
	rec := map[string]any{"kind": "glob", "pattern": pattern, "absolute": absolute, "tree": what}
	if pi != nil {
		c.Violation("PANIC "+pi.Site, fmt.Sprintf("ParsePath(%q).GetFileList panics: %s", pattern, pi.Msg), rec)
		return
	}
	if pi == nil {
		if strings.Join(again, "\n") != strings.Join(got, "\n") {
			c.Violation("REUSE "+shape(pattern), fmt.Sprintf("pattern %q (%s, absolute=%v): the same parsed pattern lists %d files when asked first and %d when asked again", pattern, what, absolute, len(got), len(again)), rec)
			return
		}
		if absolute {
			a, b := append([]string{}, got...), append([]string{}, third...)
			sort.Strings(a)
			sort.Strings(b)
			if strings.Join(a, "\n") != strings.Join(b, "\n") {
				c.Violation("REUSE start "+shape(pattern), fmt.Sprintf("absolute pattern %q (%s): %d files from one start directory, %d from another", pattern, what, len(got), len(third)), rec)
				return
			}
		}
	}
	var rel []string
	seen := map[string]bool{}
	for _, g := range got {
		cl := filepath.Clean(g)
		r, err := filepath.Rel(root, cl)
		if err != nil || r == ".." || strings.HasPrefix(r, "../") {
			c.Violation("OUTSIDE-ROOT", fmt.Sprintf("pattern %q (%s): listed %q outside the searched tree", pattern, what, g), rec)
			return
		}
		if seen[r] {
			c.Violation("DUPLICATE "+shape(pattern), fmt.Sprintf("pattern %q (%s): %q listed twice", pattern, what, r), rec)
			return
		}
		seen[r] = true
		if st, err := os.Stat(cl); err != nil || st.IsDir() {
			c.Violation("NOT-A-FILE "+shape(pattern), fmt.Sprintf("pattern %q (%s): listed %q which is not a regular file", pattern, what, r), rec)
			return
		}
		rel = append(rel, r)
	}
	sort.Strings(rel)
	c.Outcome(strings.Join(rel, ","))
	if strings.Join(rel, ",") != strings.Join(want, ",") {
		var missing, extra []string
		ws := map[string]bool{}
		for _, w := range want {
			ws[w] = true
			if !seen[w] {
				missing = append(missing, w)
			}
		}
		for _, r := range rel {
			if !ws[r] {
				extra = append(extra, r)
			}
		}
		kind := "MISSING"
		if len(missing) == 0 {
			kind = "EXTRA"
		}
		c.Violation(kind+" "+shape(pattern), fmt.Sprintf("pattern %q (%s, absolute=%v): missing %v extra %v", pattern, what, absolute, missing, extra), rec)
	}
}

// shape: the pattern with every literal run replaced by x (class key)
func shape(p string) string {
	var b strings.Builder
	lit := false
	for i := 0; i < len(p); i++ {
		if p[i] == '*' || p[i] == '/' {
			b.WriteByte(p[i])
			lit = false
		} else if !lit {
			b.WriteByte('x')
			lit = true
		}
	}
	return b.String()
}

func runC20(c *Ctx) {
	root, err := os.MkdirTemp("", "vmc-c20-")
	if err != nil {
		return
	}
	defer os.RemoveAll(root)
	// (1) flat directory
	flat := filepath.Join(root, "flat")
	os.Mkdir(flat, 0o755)
	var names []string
	for _, n := range texts("ab.", c.Pick(4, 5)) {
		if n == "" || n == "." || n == ".." {
			continue
		}
		names = append(names, n)
		os.WriteFile(filepath.Join(flat, n), []byte("x"), 0o644)
	}
	os.Mkdir(filepath.Join(flat, "abd"), 0o755) // directories whose names match many patterns but must never be listed
	os.Mkdir(filepath.Join(flat, "a.d"), 0o755)
	os.WriteFile(filepath.Join(flat, "abd", "a"), []byte("x"), 0o644)
	sort.Strings(names)
	if c.Level("flat") {
		for _, pat := range texts("ab.*", c.Pick(5, 6)) {
			pat := pat
			if pat == "" || pat == "." || pat == ".." || strings.Count(pat, "*") > 3 {
				continue
			}
			if c.Unit(func() string { return "flat: " + pat }) {
				c20Compare(c, flat, pat, false, names, "flat")
			}
		}
	}
	// (1b) every character but `*` is literal: names and patterns over characters that other
	// glob dialects treat as special
	special := filepath.Join(root, "special")
	os.Mkdir(special, 0o755)
	var snames []string
	for _, n := range texts("a1[]?\\-^", 3) {
		if n == "" {
			continue
		}
		if os.WriteFile(filepath.Join(special, n), []byte("x"), 0o644) == nil {
			snames = append(snames, n)
		}
	}
	sort.Strings(snames)
	if c.Level("special characters") {
		for _, pat := range texts("a1[]?\\-^*", 4) {
			pat := pat
			if pat == "" || strings.Count(pat, "*") > 2 {
				continue
			}
			if c.Unit(func() string { return "special: " + pat }) {
				c20Compare(c, special, pat, false, snames, "special")
			}
		}
	}
	// (1c) symbolic links: a linked directory is a directory segment like any other (written out
	// or matched by a star), a linked regular file is a file
	links := filepath.Join(root, "links")
	os.MkdirAll(filepath.Join(links, "real", "sub"), 0o755)
	for _, f := range []string{"real/a.txt", "real/b.txt", "real/sub/c.txt", "f.txt", "g.md"} {
		os.WriteFile(filepath.Join(links, f), []byte("x"), 0o644)
	}
	os.Symlink("real", filepath.Join(links, "cur"))
	os.Symlink(filepath.Join(links, "real"), filepath.Join(links, "abs"))
	os.Symlink("f.txt", filepath.Join(links, "lf.txt"))
	os.Symlink(filepath.Join("real", "sub"), filepath.Join(links, "csub"))
	os.Symlink("nowhere.txt", filepath.Join(links, "lost.txt")) // a dangling link is no file
	var lall []string
	var walk func(rel string, depth int)
	walk = func(rel string, depth int) {
		entries, _ := os.ReadDir(filepath.Join(links, rel))
		for _, e := range entries {
			r := filepath.Join(rel, e.Name())
			st, err := os.Stat(filepath.Join(links, r)) // follows links
			if err != nil {
				continue
			}
			if st.IsDir() {
				if depth < 3 {
					walk(r, depth+1)
				}
			} else if st.Mode().IsRegular() {
				lall = append(lall, r)
			}
		}
	}
	walk("", 0)
	sort.Strings(lall)
	if c.Level("links") {
		dsl := []string{"cur", "real", "abs", "csub", "c*", "*r", "a*", "*", "re*l", "sub", "s*"}
		fsl := []string{"a.txt", "*.txt", "*", "c.txt", "lf.txt", "l*", "f*", "*.md", "cur", "abs", "lost.txt", "csub", "real", "sub"} // the last six: a literal last segment naming a link to a directory, a dangling link, a directory
		var pats []string
		for _, f := range fsl {
			pats = append(pats, f)
			for _, d := range dsl {
				pats = append(pats, d+"/"+f)
				for _, d2 := range dsl {
					pats = append(pats, d+"/"+d2+"/"+f)
				}
			}
		}
		for _, pat := range pats {
			pat := pat
			if strings.HasPrefix(pat, "*/") || strings.Contains(pat, "/*/") {
				continue // star-only directory segments are excluded by the property
			}
			if c.Unit(func() string { return "links: " + pat }) {
				c20Compare(c, links, pat, false, lall, "links")
				c20Compare(c, links, pat, true, lall, "links")
			}
		}
	}
	// (1d) directory sizes: a directory on the pattern's route, and the directory holding the files, with
	// every number of entries 0..300 and around 512, 768, 1024 (directories are read in chunks)
	if c.Level("directory sizes") {
		sizes := filepath.Join(root, "sizes")
		os.Mkdir(sizes, 0o755)
		var ns []int
		for n := 0; n <= c.Pick(300, 600); n++ {
			ns = append(ns, n)
		}
		ns = append(ns, 511, 512, 513, 767, 768, 769, 1023, 1024, 1025)
		for _, n := range ns {
			n := n
			if !c.Unit(func() string { return fmt.Sprintf("sizes: a directory with %d entries", n) }) {
				continue
			}
			d := filepath.Join(sizes, fmt.Sprintf("n%d", n))
			os.MkdirAll(filepath.Join(d, "logs"), 0o755)
			var want []string
			// n entries in logs/: one sub-directory (if n >= 1) and n-1 files
			if n >= 1 {
				os.Mkdir(filepath.Join(d, "logs", "sub"), 0o755)
				os.WriteFile(filepath.Join(d, "logs", "sub", "inner.txt"), []byte("x"), 0o644)
				want = append(want, "logs/sub/inner.txt")
			}
			for i := 0; i < n-1; i++ {
				name := fmt.Sprintf("f%04d.txt", i)
				os.WriteFile(filepath.Join(d, "logs", name), []byte("x"), 0o644)
				want = append(want, "logs/"+name)
			}
			sort.Strings(want)
			for _, pat := range []string{"logs/*.txt", "logs/f*", "l*/*.txt", "logs/sub/inner.txt", "logs/s*/*.txt", "l*s/s*b/*", "logs/f0000.txt"} {
				c20Compare(c, d, pat, false, want, "sizes")
			}
			os.RemoveAll(d)
		}
	}
	// (1e) a parsed pattern asked again after the tree has changed sees the tree as it is now
	if c.Level("reuse after a change") {
		for _, pat := range []string{"d/*.txt", "d/f*", "d*/*.txt", "d/s*/x.txt", "d/sub/*", "*.txt"} {
			for _, abs := range []bool{false, true} {
				pat, abs := pat, abs
				if !c.Unit(func() string { return fmt.Sprintf("reuse after a change: %s (absolute=%v)", pat, abs) }) {
					continue
				}
				rd, _ := os.MkdirTemp(root, "reuse-")
				os.MkdirAll(filepath.Join(rd, "d", "sub"), 0o755)
				os.WriteFile(filepath.Join(rd, "d", "f1.txt"), []byte("x"), 0o644)
				os.WriteFile(filepath.Join(rd, "d", "sub", "x.txt"), []byte("x"), 0o644)
				os.WriteFile(filepath.Join(rd, "top.txt"), []byte("x"), 0o644)
				arg := pat
				if abs {
					arg = rd + "/" + pat
				}
				var first, second, fresh []string
				pi := guard(func() {
					pp := files.ParsePath(arg)
					first = pp.GetFileList(rd)
					os.WriteFile(filepath.Join(rd, "d", "f2.txt"), []byte("x"), 0o644)
					os.Remove(filepath.Join(rd, "d", "f1.txt"))
					os.MkdirAll(filepath.Join(rd, "d", "s2"), 0o755)
					os.WriteFile(filepath.Join(rd, "d", "s2", "x.txt"), []byte("x"), 0o644)
					os.WriteFile(filepath.Join(rd, "new.txt"), []byte("x"), 0o644)
					second = pp.GetFileList(rd)
					fresh = files.ParsePath(arg).GetFileList(rd)
				})
				c.Eval(1)
				c.Nontrivial(1)
				rec := map[string]any{"kind": "glob", "pattern": pat, "absolute": abs, "tree": "reuse"}
				if pi != nil {
					c.Violation("PANIC "+pi.Site, fmt.Sprintf("ParsePath(%q).GetFileList panics: %s", pat, pi.Msg), rec)
					continue
				}
				_ = first
				sort.Strings(second)
				sort.Strings(fresh)
				if strings.Join(second, "\n") != strings.Join(fresh, "\n") {
					c.Violation("REUSE stale "+shape(pat), fmt.Sprintf("pattern %q (absolute=%v): after files were added and removed the pattern parsed earlier lists %d files, a freshly parsed one %d", pat, abs, len(second), len(fresh)), rec)
				}
				os.RemoveAll(rd)
			}
		}
	}
	// (2) tree
	tree := filepath.Join(root, "tree")
	os.Mkdir(tree, 0o755)
	var all []string
	base := []string{"a", "b", "ab", "ba"}
	for _, f := range base {
		os.WriteFile(filepath.Join(tree, f+"f"), []byte("x"), 0o644)
		all = append(all, f+"f")
	}
	for _, d1 := range base {
		os.Mkdir(filepath.Join(tree, d1), 0o755)
		for _, f := range base {
			os.WriteFile(filepath.Join(tree, d1, f), []byte("x"), 0o644)
			all = append(all, d1+"/"+f)
		}
		for _, d2 := range []string{"a", "ab", "bb"} {
			os.Mkdir(filepath.Join(tree, d1, d2+"d"), 0o755)
			for _, f := range base {
				os.WriteFile(filepath.Join(tree, d1, d2+"d", f), []byte("x"), 0o644)
				all = append(all, d1+"/"+d2+"d/"+f)
			}
		}
	}
	for _, d := range []string{".a", "a.b", "..a"} {
		os.Mkdir(filepath.Join(tree, d), 0o755)
		for _, f := range []string{"a", "ab"} {
			os.WriteFile(filepath.Join(tree, d, f), []byte("x"), 0o644)
			all = append(all, d+"/"+f)
		}
	}
	sort.Strings(all)
	dsegs := []string{"a", "b", "ab", "a*", "*b", "*a*", "b*", "*d", "a*d", "ab*", ".*", "*.*", "*.", ".a", "..*", "*.b"}
	fsegs := []string{"a", "b", "ab", "a*", "*b", "a*b", "*a*", "*", "**", "*f", "b*f", "ba"}
	if c.Level("tree") {
		var pats []string
		pats = append(pats, fsegs...)
		// a pattern ending in a slash has an empty file segment: it names no file
		pats = append(pats, "a/", "a*/", "*/", "ab/a*/", "af/", "*f/")
		for _, d := range dsegs {
			for _, f := range fsegs {
				pats = append(pats, d+"/"+f)
			}
			for _, d2 := range dsegs {
				for _, f := range fsegs {
					pats = append(pats, d+"/"+d2+"/"+f)
				}
			}
		}
		for _, pat := range pats {
			pat := pat
			if c.Unit(func() string { return "tree: " + pat }) {
				c20Compare(c, tree, pat, false, all, "tree")
				c20Compare(c, tree, pat, true, all, "tree")
			}
		}
	}
}
