package main

import (
	"encoding/json"
	"fmt"
	"hash/fnv"
	"os"
	"os/exec"
	"reflect"
	"strings"

	"github.com/jmeaster30/vore/libvore"
)

func init() {
	register(&Check{
		ID:    "C13",
		Level: "model_checking",
		Rule: "(a) transparency: every capture-free body of <= n nodes x 8 contexts (bare, prefix, suffix, in a loop, either side of `or`, referenced twice, three times) x 5 naming variants (written out, inline subroutine + calls, `set .. to pattern`, nested pattern, pattern with a true predicate) x every text over {a,b,d} up to length 5: all variants must report the same spans; " +
			"(b) commands: every source of 1-3 commands drawn from 6 commands sharing 2 definitions must give the concatenation of its commands run alone; " +
			"(c) histories: explicit enumeration of all Compile/Run histories up to depth d over 6 sources x 3 texts on live objects: every operation must return what it returns as the first operation of a fresh process, and no operation may change the bytecode of any live program (state = canonical hash of all live programs' bytecode); states/transitions count (c); non-trivial = distinct comparisons with at least one match",
		Assume: []string{"reflection reads the unexported bytecode of *Vore for the state key; if that fails the key degrades to the operation history and the evidence says state_key=unavailable"},
		Budget: map[string]int{"quick": 150, "thorough": 1500},
		Run:    runC13,
		Post: func(a *Agg, cov map[string]any) {
			cov["states"] = len(a.Sets["c13_states"])
			if len(a.Sets["c13_states"]) == 0 {
				cov["states"] = 1
			}
			cov["transitions"] = a.Counters["history_ops"]
			cov["traces_validated_against_impl"] = a.Counters["histories"]
			cov["explanation"] = "histories are executed on the real Compile/Run (no separate model); the reference for each operation is the same operation executed first in a fresh process"
			delete(cov, "c13_states")
		},
	})
	extraCmds["c13ref"] = c13RefMain
}

var c13Sources = []string{
	"find all @/(a)(b)?/",
	"set p to pattern 'a' or 'ab'\nset q to pattern in 'b', 'd'\nfind all p q\nfind all q p",
	"find all {'a' maybe r 'b'} = r",
	"set t to transform return match + matchNumber end\nreplace all at least 1 'a' with t '-'",
	"find skip 1 'a' maybe 'b'",
	"set p to pattern {'a' maybe r 'b'} = r 'd'\nfind all p\nfind all maybe p 'd'",
	"find all at least 1 (('a' = x) or ('b' = y)) named r",
	"set f to transform set v to 1 set w to true return v * 2 end\nreplace all 'a' with f",
	"set g to transform return head v + w end\nset p to pattern 'a' begin set k to matchLength return k == 1 end\nreplace all p with g",
	"set g to pattern @/(a)(b|d)\\2?/\nfind all g maybe 'a'",
}

const c13Defs = "set p to pattern 'a' or 'ab'\nset q to pattern {in 'b', 'd' maybe r} = r\n"

// the last two items are a definition with numbered regex groups followed by its use: the numbering
// restarts in every command, `set` commands included, wherever in the source they stand
var c13Cmds = []string{"find all p q", "find all q p 'd'", "replace all p with 'x' value", "find skip 1 maybe p q", "find all @/(a)(b|d)\\1?/", "find all at least 1 (p = x) named l",
	"set g to pattern @/(a)(b|d)\\2?/\nfind all g maybe 'a'", "set h to pattern 'a' @/(b)(d)?\\1/\nreplace all h with 'y'"}

var c13Texts = []string{"abab dab", "aabbd abd aab", "bdab\nabba d"}

func c13RefMain(args []string) {
	// prints, as JSON, the result of Compile(source i) + Run(text k) executed first in this process
	var i, k int
	fmt.Sscan(args[0], &i)
	fmt.Sscan(args[1], &k)
	v, err, pi := compileSafe(c13Sources[i])
	out := map[string]any{}
	if pi != nil || err != nil {
		out["error"] = fmt.Sprint(err, pi)
	} else {
		ms, pi := runSafe(v, c13Texts[k])
		if pi != nil {
			out["error"] = "panic: " + pi.Msg
		} else {
			out["records"] = matchRecords(ms)
		}
	}
	json.NewEncoder(os.NewFile(3, "res")).Encode(out)
}

func c13Reference() (map[[2]int]string, error) {
	ref := map[[2]int]string{}
	for i := range c13Sources {
		for k := range c13Texts {
			pr, pw, _ := os.Pipe()
			cmd := exec.Command(os.Args[0], "c13ref", fmt.Sprint(i), fmt.Sprint(k))
			cmd.ExtraFiles = []*os.File{pw}
			if err := cmd.Start(); err != nil {
				return nil, err
			}
			pw.Close()
			var out map[string]any
			json.NewDecoder(pr).Decode(&out)
			pr.Close()
			cmd.Wait()
			b, _ := json.Marshal(out)
			ref[[2]int{i, k}] = string(b)
		}
	}
	return ref, nil
}

// bytecodeKey hashes the bytecode of a compiled program by reflection, with the
// random loop ids replaced by their order of first appearance.
func bytecodeKey(v *libvore.Vore) (key string, ok bool) { return bytecodeKeyOpt(v, false) }

// bytecodeKeyCap also covers the elements between a slice's length and its capacity: an `append`
// into the spare capacity of a slice the program shares writes there without changing any length.
func bytecodeKeyCap(v *libvore.Vore) (key string, ok bool) { return bytecodeKeyOpt(v, true) }

func bytecodeKeyOpt(v *libvore.Vore, withCap bool) (key string, ok bool) {
	defer func() {
		if recover() != nil {
			key, ok = "", false
		}
	}()
	f := reflect.ValueOf(v).Elem().FieldByName("bytecode")
	if !f.IsValid() {
		return "", false
	}
	ids := map[int64]int{}
	var b strings.Builder
	var walk func(x reflect.Value, depth int)
	walk = func(x reflect.Value, depth int) {
		if depth > 40 {
			return
		}
		switch x.Kind() {
		case reflect.Ptr, reflect.Interface:
			if x.IsNil() {
				b.WriteString("nil;")
				return
			}
			walk(x.Elem(), depth+1)
		case reflect.Struct:
			b.WriteString(x.Type().Name() + "{")
			for i := 0; i < x.NumField(); i++ {
				fn := x.Type().Field(i).Name
				if fn == "Id" && x.Field(i).Kind() == reflect.Int64 {
					id := x.Field(i).Int()
					if _, seen := ids[id]; !seen {
						ids[id] = len(ids)
					}
					fmt.Fprintf(&b, "Id:L%d;", ids[id])
					continue
				}
				b.WriteString(fn + ":")
				walk(x.Field(i), depth+1)
			}
			b.WriteString("}")
		case reflect.Slice, reflect.Array:
			b.WriteString("[")
			for i := 0; i < x.Len(); i++ {
				walk(x.Index(i), depth+1)
			}
			if withCap && x.Kind() == reflect.Slice && x.Cap() > x.Len() {
				b.WriteString("|spare:")
				full := x.Slice(0, x.Cap())
				for i := x.Len(); i < x.Cap(); i++ {
					walk(full.Index(i), depth+1)
				}
			}
			b.WriteString("]")
		case reflect.Map:
			fmt.Fprintf(&b, "map%d;", x.Len())
		case reflect.String:
			fmt.Fprintf(&b, "%q;", x.String())
		case reflect.Int, reflect.Int64, reflect.Int32, reflect.Int8, reflect.Int16:
			fmt.Fprintf(&b, "%d;", x.Int())
		case reflect.Bool:
			fmt.Fprintf(&b, "%v;", x.Bool())
		default:
			b.WriteString(x.Kind().String() + ";")
		}
	}
	walk(f, 0)
	h := fnv.New64a()
	h.Write([]byte(b.String()))
	return fmt.Sprintf("%x", h.Sum64()), true
}

type histOp struct {
	Compile int // >=0: Compile(source i); -1: Run
	Obj     int
	Text    int
}

func (o histOp) String() string {
	if o.Compile >= 0 {
		return fmt.Sprintf("Compile(S%d)", o.Compile)
	}
	return fmt.Sprintf("Run(obj%d,T%d)", o.Obj, o.Text)
}

func runC13(c *Ctx) {
	installStepHook()
	defer flushInstKinds(c)
	// (a) transparency
	txts := texts("abd", 5)
	g := gramD5()
	for n := 1; n <= c.Pick(2, 3); n++ {
		if !c.Level(fmt.Sprintf("transparency:body=%d", n)) {
			return
		}
		for _, body := range g.Seqs(n) {
			for _, ctx := range d5Contexts {
				body, ctx := body, ctx
				if !c.Unit(func() string { return ctx + ": " + renderSeq(body) }) {
					continue
				}
				c.Count("programs", 1)
				var base [][]Span
				baseSrc := ""
				for vi, variant := range d5Variants {
					p := d5Build(variant, ctx, body)
					src := p.Source("find all")
					v, err, pi := compileSafe(src)
					if err != nil || pi != nil {
						c.Violation("COMPILE "+variant, fmt.Sprintf("%q rejected: %v %v", src, err, pi), map[string]any{"kind": "compile", "src": src, "want": "accepted"})
						continue
					}
					for ti, t := range txts {
						c.Eval(1)
						ms, pi := runSafe(v, t)
						if pi != nil {
							c.Violation("RUN-PANIC "+pi.Site, fmt.Sprintf("%q on %q panics: %s", src, t, pi.Msg), map[string]any{"kind": "spans", "src": src, "text": t, "want": "?"})
							continue
						}
						got := spansOf(ms)
						if vi == 0 {
							base = append(base, got)
							baseSrc = src
							if len(got) > 0 {
								c.Nontrivial(1)
							}
							c.Outcome(fmtSpans(got, false))
							continue
						}
						if ti < len(base) && !spansEqual(got, base[ti], false) {
							c.Violation("TRANSPARENCY "+variant+" "+ctx, fmt.Sprintf("%q on %q: %s, but written out (%q) gives %s", src, t, fmtSpans(got, false), baseSrc, fmtSpans(base[ti], false)),
								map[string]any{"kind": "spans", "src": src, "text": t, "want": fmtSpans(base[ti], false), "vars": false})
						}
					}
				}
			}
		}
	}
	// (a'') every primitive as the body of a definition: relocation must handle every instruction kind
	if c.Level("transparency:primitives") {
		t2 := texts(alphaD2, 3)
		var bodies [][]*T
		for _, a := range atomsD2() {
			bodies = append(bodies, []*T{a}, []*T{loop(0, -1, false, a)}, []*T{a, loop(0, 1, false, a)}, []*T{or(seq(a), lit("b"))})
		}
		for _, body := range bodies {
			for _, ctx := range []string{"bare", "prefix", "loop", "twice", "after-capture"} {
				body, ctx := body, ctx
				if !c.Unit(func() string { return ctx + ": " + renderSeq(body) }) {
					continue
				}
				c.Count("programs", 1)
				place := func(x func(i int) *T) []*T {
					if ctx == "after-capture" {
						return []*T{capt(seq(class("any", false), loop(0, 1, false, lit("b"))), "v"), x(0), loop(0, 1, false, ref("v"))}
					}
					return d5Place(ctx, x)
				}
				base := &Prog{Body: place(func(int) *T { return seq(body...) })}
				bv, err, pi := compileSafe(base.Source("find all"))
				if err != nil || pi != nil {
					c.Violation("COMPILE primitives-base", fmt.Sprintf("%q rejected: %v %v", base.Source("find all"), err, pi), map[string]any{"kind": "compile", "src": base.Source("find all"), "want": "accepted"})
					continue
				}
				variants := []*Prog{
					{Defs: []*GDef{{Name: "s", Body: body}}, Body: place(func(int) *T { return &T{K: GLOBAL, S: "s"} })},
					{Defs: []*GDef{{Name: "q", Body: body}, {Name: "s", Body: []*T{{K: GLOBAL, S: "q"}}}}, Body: place(func(int) *T { return &T{K: GLOBAL, S: "s"} })},
					{Body: place(func(i int) *T {
						if i == 0 {
							return &T{K: SUBDEF, S: "s", Kids: body}
						}
						return &T{K: CALL, S: "s"}
					})},
				}
				for vi, p := range variants {
					src := p.Source("find all")
					v, err, pi := compileSafe(src)
					if err != nil || pi != nil {
						c.Violation("COMPILE primitives", fmt.Sprintf("%q rejected: %v %v", src, err, pi), map[string]any{"kind": "compile", "src": src, "want": "accepted"})
						continue
					}
					for _, t := range t2 {
						c.Eval(1)
						bm, _ := runSafe(bv, t)
						ms, pi := runSafe(v, t)
						want, got := spansOf(bm), spansOf(ms)
						if len(want) > 0 {
							c.Nontrivial(1)
						}
						if pi != nil || !spansEqual(got, want, true) {
							c.Violation(fmt.Sprintf("TRANSPARENCY primitive v%d %s %s", vi, ctx, classKey(&Prog{Body: body})), fmt.Sprintf("%q on %q: %s (panic %v), but written out (%q) gives %s", src, t, fmtSpans(got, true), pi, base.Source("find all"), fmtSpans(want, true)),
								map[string]any{"kind": "spans", "src": src, "text": t, "want": fmtSpans(want, true), "vars": true})
						}
					}
				}
			}
		}
	}
	// (a') nested definitions: a stored pattern that itself references another
	// definition more than once (relocation must move call targets and ids together)
	for n := 1; n <= c.Pick(2, 3); n++ {
		if !c.Level(fmt.Sprintf("nested:body=%d", n)) {
			return
		}
		gq := func(nm string) *T { return &T{K: GLOBAL, S: nm} }
		for _, body := range g.Seqs(n) {
			body := body
			written := []*T{seq(body...), lit("d"), seq(body...)}
			nests := []struct {
				name string
				defs []*GDef
			}{
				{"global-in-global-twice", []*GDef{{Name: "q", Body: body}, {Name: "s", Body: []*T{gq("q"), lit("d"), gq("q")}}}},
				{"subdef-in-global", []*GDef{{Name: "s", Body: []*T{{K: SUBDEF, S: "r", Kids: body}, lit("d"), {K: CALL, S: "r"}}}}},
				{"three-levels", []*GDef{{Name: "q", Body: body}, {Name: "u", Body: []*T{gq("q")}}, {Name: "s", Body: []*T{gq("u"), lit("d"), gq("u")}}}},
			}
			for _, ctx := range []string{"bare", "prefix", "twice", "loop"} {
				ctx := ctx
				if !c.Unit(func() string { return "nested/" + ctx + ": " + renderSeq(body) }) {
					continue
				}
				c.Count("programs", 1)
				base := &Prog{Body: d5Place(ctx, func(int) *T { return seq(written...) })}
				bv, err, pi := compileSafe(base.Source("find all"))
				if err != nil || pi != nil {
					c.Violation("COMPILE nested-base", fmt.Sprintf("%q rejected: %v %v", base.Source("find all"), err, pi), map[string]any{"kind": "compile", "src": base.Source("find all"), "want": "accepted"})
					continue
				}
				for _, ns := range nests {
					p := &Prog{Defs: ns.defs, Body: d5Place(ctx, func(int) *T { return gq("s") })}
					src := p.Source("find all")
					v, err, pi := compileSafe(src)
					if err != nil || pi != nil {
						c.Violation("COMPILE "+ns.name, fmt.Sprintf("%q rejected: %v %v", src, err, pi), map[string]any{"kind": "compile", "src": src, "want": "accepted"})
						continue
					}
					for _, t := range txts {
						c.Eval(1)
						bm, _ := runSafe(bv, t)
						ms, pi := runSafe(v, t)
						want, got := spansOf(bm), spansOf(ms)
						if len(want) > 0 {
							c.Nontrivial(1)
						}
						if pi != nil || !spansEqual(got, want, false) {
							c.Violation("TRANSPARENCY "+ns.name+" "+ctx, fmt.Sprintf("%q on %q: %s (panic %v), but written out (%q) gives %s", src, t, fmtSpans(got, false), pi, base.Source("find all"), fmtSpans(want, false)),
								map[string]any{"kind": "spans", "src": src, "text": t, "want": fmtSpans(want, false), "vars": false})
						}
					}
				}
			}
		}
	}
	// (a3) a definition that comes after other commands already used the names it builds on
	if c.Level("definition-after-use") {
		bodies := []string{"'a' or 'ab'", "in 'a', 'b'", "at least 1 'a'", "'a' maybe 'b'", "not in 'b', 'd'"}
		for _, b := range bodies {
			for _, mid := range []string{"find all p", "find all p 'd' p", "replace all p with 'x'", "set z to pattern p 'd'", "find all 'd'"} {
				for _, use := range []string{"find all q", "find all q p", "find all 'd' q 'd'", "find all p q"} {
					b, mid, use := b, mid, use
					src := "set p to pattern " + b + "\n" + mid + "\nset q to pattern 'd' p 'b'\n" + use
					if !c.Unit(func() string { return src }) {
						continue
					}
					// written out: the same last command with the bodies in place, compiled alone
					w := strings.ReplaceAll(use, "q", "('d' ("+b+") 'b')")
					w = strings.ReplaceAll(w, " p", " ("+b+")")
					v, err, pi := compileSafe(src)
					bv, err2, pi2 := compileSafe(w)
					if err != nil || pi != nil || err2 != nil || pi2 != nil {
						c.Violation("COMPILE definition-after-use", fmt.Sprintf("%q / %q rejected: %v %v %v %v", src, w, err, pi, err2, pi2), map[string]any{"kind": "compile", "src": src, "want": "accepted"})
						continue
					}
					for _, t := range texts("abd", 5) {
						c.Eval(1)
						ms, pi := runSafe(v, t)
						bm, _ := runSafe(bv, t)
						// the last command contributes the tail of the result list; earlier commands its prefix
						want := spansOf(bm)
						got := spansOf(ms)
						if len(want) > 0 {
							c.Nontrivial(1)
						}
						if pi != nil || len(got) < len(want) || !spansEqual(got[len(got)-len(want):], want, false) || !c13PrefixOK(mid, b, t, got[:len(got)-len(want)]) {
							c.Violation("TRANSPARENCY definition-after-use", fmt.Sprintf("%q on %q: %s (panic %v); the last command written out (%q) gives %s", src, t, fmtSpans(got, false), pi, w, fmtSpans(want, false)),
								map[string]any{"kind": "records", "src": src, "text": t, "want": fmtSpans(want, false)})
						}
					}
				}
			}
		}
	}
	// (a') names that are used again: a later definition of the same name, or a subroutine of that name
	// inside another definition, must not change what an earlier or an outer reference means
	if c.Level("name reuse") {
		pairs := [][2]string{
			{"set a to pattern 'a'\nset b to pattern a 'b'\nset a to pattern 'd'\nfind all b a", "find all ('a' 'b') 'd'"},
			{"set a to pattern 'a'\nset b to pattern a 'b'\nset a to pattern 'd'\nfind all a b", "find all 'd' ('a' 'b')"},
			{"set a to pattern 'a'\nset b to pattern a 'b'\nset a to pattern 'd'\nfind all b a b", "find all ('a' 'b') 'd' ('a' 'b')"},
			{"set a to pattern 'a'\nset b to pattern a 'b'\nset a to pattern 'd'\nfind all b a\nfind all a b", "find all ('a' 'b') 'd'\nfind all 'd' ('a' 'b')"},
			{"set a to pattern 'a'\nset b to pattern a 'b'\nset c to pattern b a\nset a to pattern 'd'\nfind all c a", "find all (('a' 'b') 'a') 'd'"},
			{"set q to pattern 'a'\nset b to pattern {'b'} = q q\nfind all b q", "find all (('b') ('b')) 'a'"},
			{"set q to pattern 'a'\nset b to pattern {'b'} = q q\nfind all q b", "find all 'a' (('b') ('b'))"},
			{"set q to pattern 'a'\nset b to pattern {'b'} = q q\nfind all q b q", "find all 'a' (('b') ('b')) 'a'"},
			{"set q to pattern 'a' or 'd'\nset b to pattern {'b' maybe q} = q 'd'\nfind all b q", "find all ({'b' maybe r} = r 'd') ('a' or 'd')"},
			{"set q to pattern 'a'\nfind all {'b'} = q q\nfind all q", "find all ('b') ('b')\nfind all 'a'"},
			{"set a to pattern 'a'\nfind all a 'b'\nset a to pattern 'd'\nfind all a 'b'", "find all 'a' 'b'\nfind all 'd' 'b'"},
			// a definition built from its previous self; a subroutine that carries the name of the pattern it stands in
			{"set p to pattern 'a'\nset p to pattern p 'b'\nfind all p", "find all ('a') 'b'"},
			{"set p to pattern 'a'\nset p to pattern p 'b'\nfind all p p", "find all (('a') 'b') (('a') 'b')"},
			{"set p to pattern 'a'\nset p to pattern p 'b'\nset p to pattern 'd' p\nfind all p", "find all 'd' (('a') 'b')"},
			{"set q to pattern {'a'} = q 'b' q\nfind all q", "find all ({'a'} = r 'b' r)"},
			{"set q to pattern {'a'} = q 'b' q\nfind all q 'd' q", "find all ({'a'} = r 'b' r) 'd' ({'a'} = t 'b' t)"},
		}
		// stored patterns of three and more top-level elements with a control structure late in the body
		for _, body := range []string{"'a' 'b' maybe 'd'", "'a' 'b' at least 1 'd'", "'a' 'b' ('a' or 'd')", "'a' 'b' in 'a', 'd'", "'a' 'b' not in 'a'", "'a' 'b' {'d' maybe s} = s",
			"any any any at least 0 'a' 'b'", "'a' 'b' 'd' 'a' maybe 'b'", "'a' maybe 'b' 'd' (any or 'b')", "'a' 'b' 'd' at most 2 ('a' or 'b') 'd'", "'d' '-' ('a' or 'b') 'd'"} {
			pairs = append(pairs, [2]string{"set w to pattern " + body + "\nfind all w", "find all " + body},
				[2]string{"set w to pattern " + body + "\nfind all w 'a' w", "find all (" + body + ") 'a' (" + strings.ReplaceAll(body, "= s", "= s2") + ")"})
		}
		ntexts := texts("abd", 5)
		for _, pr := range pairs {
			pr := pr
			if !c.Unit(func() string { return pr[0] }) {
				continue
			}
			v1, e1, p1 := compileSafe(pr[0])
			v2, e2, p2 := compileSafe(pr[1])
			if e2 != nil || p2 != nil {
				c.Note(fmt.Sprintf("name reuse: the written-out form %q is rejected: %v", pr[1], e2))
				continue
			}
			if e1 != nil || p1 != nil {
				c.Violation("COMPILE name-reuse", fmt.Sprintf("%q rejected: %v %v", pr[0], e1, p1), map[string]any{"kind": "compile", "src": pr[0], "want": "accepted"})
				continue
			}
			for _, t := range ntexts {
				c.Eval(1)
				m1, pi1 := runSafe(v1, t)
				m2, _ := runSafe(v2, t)
				if len(m2) > 0 {
					c.Nontrivial(1)
				}
				if pi1 != nil || !spansEqual(spansOf(m1), spansOf(m2), false) {
					c.Violation("NAME-REUSE", fmt.Sprintf("%q on %q: %s (panic %v), but written out (%q) gives %s", pr[0], t, fmtSpans(spansOf(m1), false), pi1, pr[1], fmtSpans(spansOf(m2), false)),
						map[string]any{"kind": "spans", "src": pr[0], "text": t, "want": fmtSpans(spansOf(m2), false)})
				}
			}
		}
	}
	// (b) commands
	if c.Level("commands") {
		defs := c13Defs
		cmds := c13Cmds
		ctexts := texts("abd", 4)
		single := make([]*libvore.Vore, len(cmds))
		for i, cm := range cmds {
			v, err, pi := compileSafe(defs + cm)
			if err != nil || pi != nil {
				c.Violation("COMPILE commands", fmt.Sprintf("%q rejected: %v %v", defs+cm, err, pi), map[string]any{"kind": "compile", "src": defs + cm, "want": "accepted"})
				return
			}
			single[i] = v
		}
		var seqs [][]int
		for i := range cmds {
			seqs = append(seqs, []int{i})
			for j := range cmds {
				seqs = append(seqs, []int{i, j})
				for k := range cmds {
					seqs = append(seqs, []int{i, j, k})
				}
			}
		}
		for _, sq := range seqs {
			dup := false
			for a := range sq {
				for b := a + 1; b < len(sq); b++ {
					if sq[a] == sq[b] && strings.HasPrefix(cmds[sq[a]], "set ") {
						dup = true // a name is defined once
					}
				}
			}
			if dup {
				continue
			}
			var parts []string
			for _, i := range sq {
				parts = append(parts, cmds[i])
			}
			src := defs + strings.Join(parts, "\n")
			if !c.Unit(func() string { return strings.Join(parts, " ; ") }) {
				continue
			}
			v, err, pi := compileSafe(src)
			if err != nil || pi != nil {
				c.Violation("COMPILE commands", fmt.Sprintf("%q rejected: %v %v", src, err, pi), map[string]any{"kind": "compile", "src": src, "want": "accepted"})
				continue
			}
			for _, t := range ctexts {
				c.Eval(1)
				ms, pi := runSafe(v, t)
				var want []string
				for _, i := range sq {
					m1, _ := runSafe(single[i], t)
					want = append(want, matchRecords(m1)...)
				}
				if len(want) > 0 {
					c.Nontrivial(1)
				}
				if pi != nil || strings.Join(matchRecords(ms), "\n") != strings.Join(want, "\n") {
					c.Violation("COMMANDS", fmt.Sprintf("%q on %q: got %v (panic %v), commands alone give %v", src, t, matchRecords(ms), pi, want),
						map[string]any{"kind": "records", "src": src, "text": t, "want": want})
				}
			}
		}
	}
	// (c) histories
	runC13Histories(c, c.Pick(3, 4))
}

// c13PrefixOK: the matches contributed by the middle command equal that command compiled alone with its definition.
func c13PrefixOK(mid, body, text string, prefix []Span) bool {
	if strings.HasPrefix(mid, "set ") {
		return len(prefix) == 0
	}
	v, err, pi := compileSafe("set p to pattern " + body + "\n" + mid)
	if err != nil || pi != nil {
		return false
	}
	ms, _ := runSafe(v, text)
	return spansEqual(spansOf(ms), prefix, false)
}

func runC13Histories(c *Ctx, depth int) {
	if !c.Level(fmt.Sprintf("histories:depth<=%d", depth)) {
		return
	}
	var ref map[[2]int]string
	keyOK := true
	var rec func(h []histOp, nobj int)
	execute := func(h []histOp) {
		c.Count("histories", 1)
		var objs []*libvore.Vore
		var objSrc []int
		var keys []string
		stateKey := func() string {
			var ks []string
			for i, o := range objs {
				k, ok := bytecodeKey(o)
				if !ok {
					keyOK = false
				}
				ks = append(ks, fmt.Sprintf("S%d:%s", objSrc[i], k))
			}
			return strings.Join(ks, ",")
		}
		desc := func(upto int) string {
			var p []string
			for _, o := range h[:upto+1] {
				p = append(p, o.String())
			}
			return strings.Join(p, " ; ")
		}
		if len(h) == 3 {
			c.Sample(map[string]any{"history": desc(len(h) - 1), "sources": "S0..S6 = c13Sources, T0..T2 = c13Texts"})
		}
		for oi, op := range h {
			c.Count("history_ops", 1)
			c.Eval(1)
			if op.Compile >= 0 {
				v, err, pi := compileSafe(c13Sources[op.Compile])
				if err != nil || pi != nil {
					c.Violation("HISTORY compile", fmt.Sprintf("history [%s]: Compile fails: %v %v", desc(oi), err, pi), map[string]any{"kind": "history", "ops": desc(oi)})
					return
				}
				objs = append(objs, v)
				objSrc = append(objSrc, op.Compile)
				k, _ := bytecodeKey(v)
				keys = append(keys, k)
				// compiling the same source again must give the same bytecode (modulo loop ids)
				for j := 0; j < len(objs)-1; j++ {
					if objSrc[j] == op.Compile && keys[j] != k {
						c.Violation("HISTORY recompile differs", fmt.Sprintf("history [%s]: bytecode of S%d differs from its earlier compilation", desc(oi), op.Compile), map[string]any{"kind": "history", "ops": desc(oi)})
					}
				}
			} else {
				ms, pi := runSafe(objs[op.Obj], c13Texts[op.Text])
				out := map[string]any{}
				if pi != nil {
					out["error"] = "panic: " + pi.Msg
				} else {
					out["records"] = matchRecords(ms)
				}
				b, _ := json.Marshal(out)
				want := ref[[2]int{objSrc[op.Obj], op.Text}]
				if len(ms) > 0 {
					c.Nontrivial(1)
				}
				if string(b) != want {
					c.Violation("HISTORY result differs", fmt.Sprintf("history [%s]: last Run returns %s; as first operation of a fresh process it returns %s", desc(oi), string(b), want),
						map[string]any{"kind": "history", "ops": desc(oi)})
					return
				}
			}
			// no operation may change the bytecode of any live program
			for j, o := range objs {
				if k, ok := bytecodeKey(o); ok && k != keys[j] {
					c.Violation("HISTORY bytecode mutated", fmt.Sprintf("history [%s]: bytecode of obj%d (S%d) changed", desc(oi), j, objSrc[j]), map[string]any{"kind": "history", "ops": desc(oi)})
					return
				}
			}
			c.SetAdd("c13_states", stateKey())
		}
	}
	rec = func(h []histOp, nobj int) {
		if len(h) > 0 {
			// a history is worth executing when it ends with a Run (its prefix is covered by shorter ones)
			if h[len(h)-1].Compile < 0 || len(h) == depth {
				hh := append([]histOp{}, h...)
				if c.Unit(func() string { return fmt.Sprint(hh) }) {
					if ref == nil {
						ref, _ = c13Reference()
					}
					execute(hh)
				}
			}
		}
		if len(h) == depth {
			return
		}
		for i := range c13Sources {
			rec(append(h, histOp{Compile: i}), nobj+1)
		}
		for j := 0; j < nobj; j++ {
			for k := range c13Texts {
				rec(append(h, histOp{Compile: -1, Obj: j, Text: k}), nobj)
			}
		}
	}
	rec(nil, 0)
	if !keyOK {
		c.Note("state_key: unavailable (reflection on *Vore.bytecode failed); histories enumerated without bytecode comparison")
	}
}
