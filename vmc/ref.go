package main

// Reference semantics R: a continuation-passing backtracking matcher over the
// term algebra, written from the documentation (RegexComparison.md,
// LanguageDetails.md, README) and the property texts; it never looks at
// bytecode. Alternatives are explored in priority order and the first success
// wins; the environment is a persistent list, so abandoning a path abandons its
// bindings by construction.

import (
	"sort"
	"strconv"
	"strings"
)

type env struct {
	name, val string
	next      *env
}

func (e *env) get(n string) (string, bool) {
	for ; e != nil; e = e.next {
		if e.name == n {
			return e.val, true
		}
	}
	return "", false
}

// Named loops: a capture made during iteration i of a loop named lp is reported
// under lp/i/<name> (nested named loops nest the path). The environment records
// this with two kinds of marker entries: scopeMark (val = path prefix of the
// innermost named loop iteration in progress) and resetMark (val = prefix whose
// earlier bindings a fresh run of that loop replaces). Both are ordinary list
// entries, so backtracking out of a loop iteration drops them with the bindings.
const (
	scopeMark = "\x00scope"
	resetMark = "\x00reset"
)

func (e *env) scope() string {
	v, _ := e.get(scopeMark)
	return v
}

func (e *env) toMap() map[string]string {
	m := map[string]string{}
	var st []*env
	for ; e != nil; e = e.next {
		st = append(st, e)
	}
	for i := len(st) - 1; i >= 0; i-- {
		switch st[i].name {
		case scopeMark:
		case resetMark:
			for k := range m {
				if strings.HasPrefix(k, st[i].val) {
					delete(m, k)
				}
			}
		default:
			m[st[i].name] = st[i].val
		}
	}
	return m
}

// Variant switches reproduce, one at a time, a documented deviation of the
// implementation (used only to attribute violations to a known finding; R with
// all switches off is the oracle).
type Variants struct {
	NegClassZeroWidthAtEOF bool // `not digit/upper/lower/letter` succeed consuming nothing at end of input
	WordEdgeAtEOF          bool // word start true at EOF; word end true at offset 0 and decided only by the next byte at EOF
}

type Ref struct {
	text  string
	subs  map[string][]*T
	defs  map[string]*GDef
	v     Variants
	steps int64
	limit int64 // 0 = none; otherwise abort (blown=true) after this many node visits
	blown bool
}

func newRef(p *Prog, text string) *Ref {
	r := &Ref{text: text, subs: map[string][]*T{}, defs: map[string]*GDef{}}
	var scan func(ts []*T)
	scan = func(ts []*T) {
		for _, t := range ts {
			if t.K == SUBDEF {
				r.subs[t.S] = t.Kids
			}
			scan(t.Kids)
		}
	}
	scan(p.Body)
	for _, d := range p.Defs {
		r.defs[d.Name] = d
		scan(d.Body)
	}
	return r
}

func isWord(c byte) bool {
	return c >= 'a' && c <= 'z' || c >= 'A' && c <= 'Z' || c >= '0' && c <= '9' || c == '_'
}

func classMatch(name string, c byte) bool {
	switch name {
	case "any":
		return true
	case "digit":
		return c >= '0' && c <= '9'
	case "upper":
		return c >= 'A' && c <= 'Z'
	case "lower":
		return c >= 'a' && c <= 'z'
	case "letter":
		return c >= 'a' && c <= 'z' || c >= 'A' && c <= 'Z'
	case "whitespace":
		return c == ' ' || c == '\t' || c == '\n' || c == '\r'
	}
	panic("class " + name)
}

func (r *Ref) anchorHolds(name string, p int) bool {
	t, n := r.text, len(r.text)
	switch name {
	case "file start":
		return p == 0
	case "file end":
		return p == n
	case "line start":
		return p == 0 || t[p-1] == '\n'
	case "line end":
		return p == n || t[p] == '\n' || (p+1 < n && t[p] == '\r' && t[p+1] == '\n')
	case "word start":
		if r.v.WordEdgeAtEOF && p == n {
			return true
		}
		return p < n && isWord(t[p]) && (p == 0 || !isWord(t[p-1]))
	case "word end":
		if r.v.WordEdgeAtEOF {
			if p == 0 {
				return true
			}
			if p == n {
				return true // next byte reads as "" which is not a word character
			}
		}
		return p > 0 && isWord(t[p-1]) && (p == n || !isWord(t[p]))
	}
	panic("anchor " + name)
}

func foldEq(a, b string) bool {
	if len(a) != len(b) {
		return false
	}
	for i := 0; i < len(a); i++ {
		x, y := a[i], b[i]
		if x >= 'A' && x <= 'Z' {
			x += 32
		}
		if y >= 'A' && y <= 'Z' {
			y += 32
		}
		if x != y {
			return false
		}
	}
	return true
}

func (r *Ref) itemMatch(it Item, p int) (int, bool) {
	t, n := r.text, len(r.text)
	switch it.K {
	case 0:
		if it.S != "" && strings.HasPrefix(t[p:], it.S) {
			return p + len(it.S), true
		}
	case 3:
		if it.S != "" && p+len(it.S) <= n && foldEq(t[p:p+len(it.S)], it.S) {
			return p + len(it.S), true
		}
	case 1:
		if p < n && it.S[0] <= t[p] && t[p] <= it.To[0] {
			return p + 1, true
		}
	case 2:
		if p < n && classMatch(it.S, t[p]) {
			return p + 1, true
		}
	}
	return 0, false
}

type kont func(p int, e *env) bool

func (r *Ref) m(t *T, p int, e *env, k kont) bool {
	r.steps++
	if r.limit > 0 && r.steps > r.limit {
		r.blown = true
		return false
	}
	text, n := r.text, len(r.text)
	switch t.K {
	case LIT:
		if t.S != "" && strings.HasPrefix(text[p:], t.S) {
			return k(p+len(t.S), e)
		}
		return false
	case CASELESS:
		if t.S != "" && p+len(t.S) <= n && foldEq(text[p:p+len(t.S)], t.S) {
			return k(p+len(t.S), e)
		}
		return false
	case NOTLIT:
		if p < n && text[p] != t.S[0] {
			return k(p+1, e)
		}
		return false
	case CLASS:
		if p < n {
			if classMatch(t.S, text[p]) != t.Neg {
				return k(p+1, e)
			}
			return false
		}
		if r.v.NegClassZeroWidthAtEOF && t.Neg && (t.S == "digit" || t.S == "upper" || t.S == "lower" || t.S == "letter") {
			return k(p, e)
		}
		return false
	case ANCHOR:
		if r.anchorHolds(t.S, p) != t.Neg {
			return k(p, e)
		}
		return false
	case IN:
		if !t.Neg {
			for _, it := range t.Items {
				if q, ok := r.itemMatch(it, p); ok && k(q, e) {
					return true
				}
				if r.blown {
					return false
				}
			}
			return false
		}
		if p >= n {
			return false
		}
		for _, it := range t.Items {
			if _, ok := r.itemMatch(it, p); ok {
				return false
			}
		}
		return k(p+1, e)
	case SEQ, SUBDEF:
		return r.mseq(t.Kids, p, e, k)
	case OR:
		return r.m(t.Kids[0], p, e, k) || (!r.blown && r.m(t.Kids[1], p, e, k))
	case CAP:
		return r.m(t.Kids[0], p, e, func(q int, e2 *env) bool { return k(q, &env{e2.scope() + t.S, text[p:q], e2}) })
	case REF:
		v, ok := e.get(t.S)
		if !ok {
			return false
		}
		if strings.HasPrefix(text[p:], v) {
			return k(p+len(v), e)
		}
		return false
	case CALL:
		if body, ok := r.subs[t.S]; ok {
			return r.mseq(body, p, e, k)
		}
		return r.global(t.S, p, e, k)
	case GLOBAL:
		return r.global(t.S, p, e, k)
	case LOOP:
		body := t.Kids[0]
		enter := func(idx int, e *env) *env { return e }
		if t.S != "" {
			parent := e.scope()
			e = &env{resetMark, parent + t.S + "/", e}
			enter = func(idx int, e *env) *env { return &env{scopeMark, parent + t.S + "/" + strconv.Itoa(idx) + "/", e} }
			k0 := k
			k = func(q int, e2 *env) bool { return k0(q, &env{scopeMark, parent, e2}) }
		}
		rem := -1
		if t.Max != -1 {
			rem = t.Max - t.Min
			if rem < 0 {
				rem = 0
			}
		}
		var opt func(j, p int, e *env) bool
		opt = func(j, p int, e *env) bool {
			tryBody := func() bool {
				if rem != -1 && j >= rem {
					return false
				}
				return r.m(body, p, enter(t.Min+j, e), func(q int, e2 *env) bool { return q != p && opt(j+1, q, e2) })
			}
			if t.Fewest {
				return k(p, e) || (!r.blown && tryBody())
			}
			return tryBody() || (!r.blown && k(p, e))
		}
		var mand func(i, p int, e *env) bool
		mand = func(i, p int, e *env) bool {
			if i == t.Min {
				if t.Max == t.Min {
					return k(p, e)
				}
				return opt(0, p, e)
			}
			return r.m(body, p, enter(i, e), func(q int, e2 *env) bool { return mand(i+1, q, e2) })
		}
		return mand(0, p, e)
	}
	panic("ref: unknown kind")
}

func (r *Ref) global(name string, p int, e *env, k kont) bool {
	d := r.defs[name]
	if d == nil {
		return false
	}
	return r.mseq(d.Body, p, e, func(q int, e2 *env) bool {
		if d.PredFn != nil && !d.PredFn(r.text[p:q]) {
			return false
		}
		return k(q, e2)
	})
}

func (r *Ref) mseq(s []*T, p int, e *env, k kont) bool {
	if len(s) == 0 {
		return k(p, e)
	}
	return r.m(s[0], p, e, func(q int, e2 *env) bool { return r.mseq(s[1:], q, e2, k) })
}

type Span struct {
	S, E int
	Vars string // canonical rendering of string variables
}

func fmtVars(mm map[string]string) string {
	var ks []string
	for k := range mm {
		ks = append(ks, k)
	}
	sort.Strings(ks)
	var b strings.Builder
	for _, k := range ks {
		b.WriteString(k)
		b.WriteByte('=')
		b.WriteString(strQuote(mm[k]))
		b.WriteByte(';')
	}
	return b.String()
}

// refScan: the scan loop of property C01 — leftmost, non-overlapping, non-empty.
func refScan(p *Prog, text string, v Variants) ([]Span, *Ref) {
	if p.Pre != nil {
		// a source with two commands reports the first command's matches, then the second's
		first, r1 := refScan(&Prog{Defs: p.Defs, Body: p.Pre}, text, v)
		second, r2 := refScan(&Prog{Defs: p.Defs, Body: p.Body}, text, v)
		r2.blown = r2.blown || r1.blown
		return append(first, second...), r2
	}
	r := newRef(p, text)
	r.v = v
	r.limit = 20_000_000
	var out []Span
	pos := 0
	for pos < len(text) {
		end := -1
		var fe *env
		ok := r.mseq(p.Body, pos, nil, func(q int, e *env) bool { end = q; fe = e; return true })
		if r.blown {
			return out, r
		}
		if ok && end > pos {
			out = append(out, Span{pos, end, fmtVars(fe.toMap())})
			pos = end
		} else {
			pos++
		}
	}
	return out, r
}
