package main

func init() {
	register(&Check{
		ID:    "C02",
		Level: "exploration",
		Rule: "every program with at least one `= name` capture of <= n nodes over {'a','b'}, maybe/at least 0/at most 2 (greedy and fewest), at least 1, `or`, groups, back-references to the 1st/2nd capture (driver D4), plus captures inside inline subroutines and calls (D4s), plus every way of naming one or two loops of every capture program of <= 5 nodes (D4n: bindings are then reported per iteration as lp/i/name and must equally be those of the successful path, in the innermost named loop; D4n2: 384 nested-named-loop programs with a choice point inside the open inner loop and bindings in the outer iteration, texts over {a,b,c}), x every text over {a,b} up to length 5; " +
			"spans AND the string variables of every match must equal the reference matcher's final environment; non-trivial = distinct (program,text) pairs where R reports a match that binds at least one variable",
		Assume: []string{"reference matcher R (vmc/ref.go): bindings live in a persistent list, so an abandoned path cannot leak", "named loops: only string leaves of the per-iteration maps are compared (empty per-iteration maps are an undocumented detail); back-references to names bound inside a named loop are not generated (undocumented, the engine resolves back-references in the outermost scope only)"},
		Budget: map[string]int{"quick": 120, "thorough": 1500},
		Run:    runC02,
	})
}

func gramD4min() *Gram {
	return &Gram{Atoms: []*T{lit("a"), lit("b")}, Or: true, Cap: true, Refs: 1,
		Loops: []LoopKind{{0, 1, false}, {1, -1, false}, {1, -1, true}, {2, 2, false}, {1, 2, false}}}
}

func runC02(c *Ctx) {
	installStepHook()
	defer flushInstKinds(c)
	txts := texts("ab", 5)
	runGramC02(c, "D4", gramD4(false), c.Pick(5, 5), txts)
	runGramC02(c, "D4min", gramD4min(), c.Pick(5, 5), txts)
	// D4in: a three-way choice point (an `in` list with overlapping items, or a
	// nested `or`) in front of every capture program: bindings made behind one
	// alternative must not survive into the next one
	in3 := []*T{
		{K: IN, Items: []Item{{K: 0, S: "a"}, {K: 0, S: "ab"}, {K: 0, S: "abb"}}},
		{K: IN, Items: []Item{{K: 0, S: "abb"}, {K: 0, S: "a"}, {K: 0, S: "ab"}, {K: 0, S: "b"}}},
		or(lit("a"), or(lit("ab"), lit("abb"))),
	}
	gin := gramD4(true)
	for n := 2; n <= c.Pick(4, 5); n++ {
		if !c.Level("D4in:n=" + itoa(n)) {
			return
		}
		for _, raw := range gin.Seqs(n) {
			body := instantiate(raw, true)
			if body == nil {
				continue
			}
			for _, pre := range in3 {
				p := &Prog{Body: append([]*T{pre}, body...)}
				if c.Unit(func() string { return progDesc(p) }) {
					c.Count("programs", 1)
					semUnit(c, "C02", p, txts, true, false)
				}
			}
		}
	}
	// D4in2: the same three-way choice points, a small capture grammar behind them and a
	// closing literal that only the last alternative can reach (texts over {a,b,c})
	g2 := &Gram{Atoms: []*T{lit("a"), class("any", false)}, Or: true, Cap: true, Refs: 1, Loops: []LoopKind{{0, 1, false}, {0, -1, false}}}
	tabc := texts("abc", 4)
	for n := 2; n <= c.Pick(5, 6); n++ {
		if !c.Level("D4in2:n=" + itoa(n)) {
			return
		}
		for _, raw := range g2.Seqs(n) {
			body := instantiate(raw, true)
			if body == nil {
				continue
			}
			for _, pre := range in3 {
				p := &Prog{Body: append(append([]*T{pre}, body...), lit("c"))}
				if c.Unit(func() string { return progDesc(p) }) {
					c.Count("programs", 1)
					semUnit(c, "C02", p, tabc, true, false)
				}
			}
		}
	}
	// captures inside subroutines / calls / globals
	if c.Level("D4s:subroutines") {
		for _, p := range d4sPrograms() {
			p := p
			if c.Unit(func() string { return progDesc(p) }) {
				c.Count("programs", 1)
				semUnitVars(c, p, txts)
			}
		}
	}
	// D4n: named loops. A capture made in iteration i of a loop named lp is reported as
	// lp/i/<name>; bindings made on an abandoned path inside an iteration (an alternative,
	// an optional group, an inner loop that gives back) must not stay in that map, and a
	// binding belongs to the innermost named loop around it.
	gn := &Gram{Atoms: []*T{lit("a"), lit("b")}, Or: true, Cap: true,
		Loops: []LoopKind{{0, 1, false}, {0, -1, false}, {0, -1, true}, {1, -1, false}, {1, 2, false}}}
	for n := 3; n <= c.Pick(5, 6); n++ {
		if !c.Level("D4n:n=" + itoa(n)) {
			return
		}
		for _, raw := range gn.Seqs(n) {
			body := instantiate(raw, true)
			if body == nil {
				continue
			}
			for _, nb := range nameLoops(body) {
				p := &Prog{Body: nb}
				if c.Unit(func() string { return progDesc(p) }) {
					c.Count("programs", 1)
					c.Count("named_loop_programs", 1)
					semUnit(c, "C02", p, txts, true, false)
				}
			}
		}
	}
	// D4n2: nested named loops with a choice point taken while the inner one is open and a binding
	// made in the outer iteration after the inner loop has ended (template family, texts over {a,b,c})
	if c.Level("D4n2:nested named loops") {
		nl := func(name string, min, max int, fewest bool, b *T) *T {
			l := loop(min, max, fewest, b)
			l.S = name
			return l
		}
		a, b, cc := lit("a"), lit("b"), lit("c")
		inners := []*T{a, capt(a, "r"), or(a, b), seq(loop(0, 1, false, capt(a, "r")), or(a, b))}
		choices := [][]*T{{or(capt(a, "q"), capt(b, "p"))}, {loop(0, 1, false, capt(a, "q")), loop(0, 1, false, capt(b, "p"))}, {capt(or(a, b), "q")}, {or(seq(capt(a, "q"), b), seq(a, capt(or(b, cc), "p")))}}
		tails := [][]*T{{cc}, {b}, {}}
		tabc := texts("abc", 5)
		for _, in := range inners {
			for _, imin := range []int{0, 1} {
				for _, ifew := range []bool{false, true} {
					for _, ch := range choices {
						for _, tl := range tails {
							for _, omin := range []int{0, 1} {
								body := append(append([]*T{nl("li", imin, -1, ifew, in)}, ch...), tl...)
								p := &Prog{Body: []*T{nl("lo", omin, -1, false, seq(body...))}}
								if c.Unit(func() string { return progDesc(p) }) {
									c.Count("programs", 1)
									c.Count("named_loop_programs", 1)
									semUnit(c, "C02", p, tabc, true, false)
								}
							}
						}
					}
				}
			}
		}
	}
	if c.Level("D4n:fixed") {
		for _, p := range d4nPrograms() {
			p := p
			if c.Unit(func() string { return progDesc(p) }) {
				c.Count("programs", 1)
				c.Count("named_loop_programs", 1)
				semUnit(c, "C02", p, txts, true, false)
			}
		}
	}
	if !c.Quick() {
		runGramC02(c, "D4r", gramD4(true), 6, txts)
	}
}

// nameLoops returns every copy of body in which one or two of its loops carry a name
// (lp for the first named loop in source order, lq for the second) and at least one
// capture sits inside a named loop.
func nameLoops(body []*T) [][]*T { return nameLoopsOpt(body, true) }

func nameLoopsOpt(body []*T, needCap bool) [][]*T {
	nloops := 0
	var count func(ts []*T)
	count = func(ts []*T) {
		for _, t := range ts {
			if t.K == LOOP {
				nloops++
			}
			count(t.Kids)
		}
	}
	count(body)
	var out [][]*T
	for mask := 1; mask < 1<<nloops; mask++ {
		if bitsSet(mask) > 2 {
			continue
		}
		idx, named, capInside, bad := 0, 0, false, false
		var cp func(t *T, in bool) *T
		cp = func(t *T, in bool) *T {
			c := *t
			c.Kids = nil
			if t.K == LOOP {
				if mask&(1<<idx) != 0 && t.Min == 0 && t.Max == 1 {
					bad = true // `maybe` takes no name
				}
				if mask&(1<<idx) != 0 {
					c.S = []string{"lp", "lq"}[named]
					named++
					in = true
				}
				idx++
			}
			if t.K == CAP && in {
				capInside = true
			}
			for _, kid := range t.Kids {
				c.Kids = append(c.Kids, cp(kid, in))
			}
			return &c
		}
		var nb []*T
		for _, t := range body {
			nb = append(nb, cp(t, false))
		}
		if (capInside || !needCap) && !bad {
			out = append(out, nb)
		}
	}
	return out
}

func bitsSet(m int) int {
	n := 0
	for ; m != 0; m &= m - 1 {
		n++
	}
	return n
}

// named loops around calls, inside subroutines and nested three deep
func d4nPrograms() []*Prog {
	call := func(n string) *T { return &T{K: CALL, S: n} }
	sub := func(n string, k ...*T) *T { return &T{K: SUBDEF, S: n, Kids: k} }
	nl := func(name string, min, max int, fewest bool, b *T) *T {
		l := loop(min, max, fewest, b)
		l.S = name
		return l
	}
	a, b := lit("a"), lit("b")
	bodies := [][]*T{
		{sub("s", capt(a, "x")), nl("lp", 0, -1, false, seq(call("s"), loop(0, 1, false, b)))},
		{nl("lp", 1, -1, false, seq(sub("s", or(seq(capt(a, "x"), b), seq(a, a)))))},
		{nl("lo", 1, -1, false, seq(nl("lm", 1, -1, false, seq(nl("li", 1, 2, false, capt(a, "x")), loop(0, 1, false, capt(b, "y")))), loop(0, 1, false, capt(a, "z"))))},
		{nl("lo", 0, -1, false, seq(capt(or(a, b), "x"), nl("li", 0, -1, true, capt(a, "y")), b))},
		{capt(a, "x"), nl("lp", 0, -1, false, or(seq(capt(b, "y"), a), b)), ref("x")},
		{nl("lp", 0, -1, false, seq(loop(0, -1, false, capt(a, "x")), b)), nl("lq", 0, 2, false, capt(a, "y"))},
		{loop(0, -1, false, seq(nl("lp", 1, -1, false, capt(a, "x")), b))},
		{nl("lp", 1, -1, true, seq(capt(loop(0, -1, true, a), "x"), b)), a},
		// a named loop that runs several times in one match (inside an unnamed loop), each run with a choice inside
		{loop(1, -1, false, seq(nl("lp", 1, -1, false, or(seq(capt(a, "x"), b), seq(a, a))), b))},
		{loop(1, -1, false, seq(nl("lp", 1, -1, true, or(seq(capt(a, "x"), b), a)), b))},
		{loop(0, -1, false, seq(nl("lp", 0, -1, false, seq(loop(0, 1, false, capt(a, "x")), b)), a))},
	}
	var out []*Prog
	for _, bd := range bodies {
		out = append(out, &Prog{Body: bd})
	}
	return out
}

func semUnitVars(c *Ctx, p *Prog, txts []string) {
	semUnit(c, "C02", p, txts, true, false)
}

func runGramC02(c *Ctx, name string, g *Gram, maxN int, txts []string) {
	for n := 2; n <= maxN; n++ {
		if !c.Level(name + ":n=" + itoa(n)) {
			return
		}
		for _, raw := range g.Seqs(n) {
			body := instantiate(raw, true)
			if body == nil {
				continue
			}
			p := &Prog{Body: body}
			if !c.Unit(func() string { return progDesc(p) }) {
				continue
			}
			c.Count("programs", 1)
			semUnit(c, "C02", p, txts, true, n <= 3)
		}
	}
}

// captures under calls: the binding made inside a subroutine body is visible
// after the call returns and is dropped when the call is backtracked out of.
func d4sPrograms() []*Prog {
	call := func(n string) *T { return &T{K: CALL, S: n} }
	sub := func(n string, k ...*T) *T { return &T{K: SUBDEF, S: n, Kids: k} }
	g := func(n string) *T { return &T{K: GLOBAL, S: n} }
	a, b := lit("a"), lit("b")
	var out []*Prog
	bodies := [][]*T{
		{sub("s", capt(a, "x")), b},
		{sub("s", capt(a, "x")), loop(0, 1, false, call("s")), b},
		{sub("s", capt(or(a, b), "x")), call("s"), ref("x")},
		{or(seq(sub("s", capt(a, "x")), b), seq(a, a))},
		{sub("s", capt(loop(0, -1, false, a), "x"), b), ref("x")},
		{sub("s", a, loop(0, 1, false, call("s")), capt(b, "x")), ref("x")},
		{capt(a, "x"), sub("s", ref("x"), loop(0, 1, false, call("s"))), b},
		{loop(0, -1, false, seq(sub("s", capt(or(a, b), "x")))), ref("x")},
		{sub("s", or(seq(capt(a, "x"), b), seq(a, a))), loop(0, 1, false, ref("x"))},
		{sub("r", capt(seq(a, loop(0, 1, false, call("r")), b), "x"))},
		{sub("r", capt(seq(a, loop(0, 1, false, call("r")), b), "x")), ref("x")},
		{sub("r", a, capt(seq(loop(0, 1, false, call("r"))), "x"), b), loop(0, 1, false, ref("x"))},
		{sub("r", capt(or(b, seq(a, call("r"))), "x")), a, ref("x")},
	}
	for _, bd := range bodies {
		out = append(out, &Prog{Body: bd})
	}
	// a capture that carries the name of a stored pattern: inside the command the name is the capture
	for _, bd := range [][]*T{{capt(a, "x"), ref("x")}, {capt(or(a, b), "x"), b, ref("x")}, {loop(0, 1, false, capt(b, "x")), a, loop(0, 1, false, ref("x"))}} {
		out = append(out, &Prog{Defs: []*GDef{{Name: "x", Body: []*T{or(b, seq(a, a))}}}, Body: bd})
	}
	// capture in the command, pattern global around it
	out = append(out, &Prog{Defs: []*GDef{{Name: "p", Body: []*T{or(a, seq(a, b))}}}, Body: []*T{capt(g("p"), "x"), loop(0, 1, false, ref("x"))}})
	out = append(out, &Prog{Defs: []*GDef{{Name: "p", Body: []*T{loop(1, -1, false, a)}}}, Body: []*T{capt(g("p"), "x"), b, ref("x")}})
	out = append(out, &Prog{Defs: []*GDef{{Name: "p", Body: []*T{or(a, b)}}}, Body: []*T{or(seq(capt(g("p"), "x"), b), seq(g("p"), a)), loop(0, 1, false, ref("x"))}})
	return out
}
