package main

import (
	"github.com/jmeaster30/vore/libvore/bytecode"
	"github.com/jmeaster30/vore/libvore/engine"
)

// H1 binding: per-step instruction counting, instruction-kind coverage and an
// in-process step budget (aborted by a sentinel panic that guard() recognises).

var instKindNames = []string{"MatchLiteral", "MatchCharClass", "MatchVariable", "MatchRange", "CallSubroutine", "Branch",
	"StartNotIn", "EndNotIn", "FailNotIn", "StartLoop", "StopLoop", "StartVarDec", "EndVarDec", "StartSubroutine", "EndSubroutine", "Jump", "other"}

var (
	stepCount   int64
	stepBudget  int64 // 0 = unlimited
	instKindSet uint32
)

func instKind(inst bytecode.SearchInstruction) int {
	switch inst.(type) {
	case bytecode.MatchLiteral:
		return 0
	case bytecode.MatchCharClass:
		return 1
	case bytecode.MatchVariable:
		return 2
	case bytecode.MatchRange:
		return 3
	case bytecode.CallSubroutine:
		return 4
	case bytecode.Branch:
		return 5
	case bytecode.StartNotIn:
		return 6
	case bytecode.EndNotIn:
		return 7
	case bytecode.FailNotIn:
		return 8
	case bytecode.StartLoop:
		return 9
	case bytecode.StopLoop:
		return 10
	case bytecode.StartVarDec:
		return 11
	case bytecode.EndVarDec:
		return 12
	case bytecode.StartSubroutine:
		return 13
	case bytecode.EndSubroutine:
		return 14
	case bytecode.Jump:
		return 15
	}
	return 16
}

func installStepHook() {
	engine.VerifStepHook = func(pc int, inst bytecode.SearchInstruction, s *engine.SearchEngineState) {
		stepCount++
		instKindSet |= 1 << uint(instKind(inst))
		if stepBudget > 0 && stepCount > stepBudget {
			panic(stepAbort{})
		}
	}
}

func flushInstKinds(c *Ctx) {
	for i, n := range instKindNames {
		if instKindSet&(1<<uint(i)) != 0 {
			c.SetAdd("vm_instruction_kinds", n)
		}
	}
}
