package main

import (
	"reflect"

	"github.com/jmeaster30/vore/libvore/bytecode"
	"github.com/jmeaster30/vore/libvore/engine"
)

// H1 binding: per-step instruction counting, instruction-kind coverage and an
// in-process step budget (aborted by a sentinel panic that guard() recognises).

// instruction kinds are recorded by the dynamic type name of the instruction (no compile-time
// dependency on the individual instruction types)
var (
	stepCount    int64
	stepBudget   int64 // 0 = unlimited
	instKindIdx  = map[reflect.Type]int{}
	instKindName []string
	instKindSet  uint64
)

func instKind(inst bytecode.SearchInstruction) int {
	t := reflect.TypeOf(inst)
	if i, ok := instKindIdx[t]; ok {
		return i
	}
	i := len(instKindName)
	if i >= 63 {
		return 63
	}
	name := "nil"
	if t != nil {
		name = t.Name()
		if name == "" {
			name = t.String()
		}
	}
	instKindIdx[t] = i
	instKindName = append(instKindName, name)
	return i
}

func installStepHook() {
	engine.VerifStepHook = func(pc int, inst bytecode.SearchInstruction, s *engine.SearchEngineState) {
		stepCount++
		instKindSet |= 1 << uint(instKind(inst))
		if stepBudget > 0 && stepCount > stepBudget {
			panic(stepAbort{})
		}
	}
}

func flushInstKinds(c *Ctx) {
	for i, n := range instKindName {
		if instKindSet&(1<<uint(i)) != 0 {
			c.SetAdd("vm_instruction_kinds", n)
		}
	}
}
