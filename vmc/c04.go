package main

import (
	"fmt"
	"strings"
)

func init() {
	register(&Check{
		ID:    "C04",
		Level: "exploration",
		Rule: "metamorphic, full product: every body B (all D1 programs of <= n nodes, overlap-prone literals, nullable and multi-line bodies, bodies with captures - incl. captures bound by only some matches, named in the replacement) x every text over {a,b} (resp. {a,b,\\n}) up to the length bound x EVERY amount clause skip s / skip s take t / top n / take n / last n with s,t,n in 0..maxlen+1, as find and as replace; plus long sequences: 4 bodies x every total of 0..140 (thorough 300) matches x windows skip/take/top/last with sizes 0..6, 15..17, 31..33, 63..67; " +
			"each clause must return exactly the slice of A = `find all B` that the statement names, records compared field by field incl. MatchNumber; non-trivial = distinct (body,text,clause) triples with len(A) >= 2",
		Assume: []string{"`last 0` is excluded (undocumented)", "A itself is validated by C01/C03"},
		Budget: map[string]int{"quick": 120, "thorough": 1200},
		Run:    runC04,
	})
}

type amountClause struct {
	src  string
	pick func(n int) (lo, hi int) // slice of A selected
}

func amountClauses(max int) []amountClause {
	clamp := func(x, n int) int {
		if x > n {
			return n
		}
		if x < 0 {
			return 0
		}
		return x
	}
	var out []amountClause
	for s := 0; s <= max; s++ {
		s := s
		out = append(out, amountClause{fmt.Sprintf("skip %d", s), func(n int) (int, int) { return clamp(s, n), n }})
		for t := 0; t <= max; t++ {
			t := t
			out = append(out, amountClause{fmt.Sprintf("skip %d take %d", s, t), func(n int) (int, int) { return clamp(s, n), clamp(s+t, n) }})
		}
	}
	for k := 0; k <= max; k++ {
		k := k
		out = append(out, amountClause{fmt.Sprintf("top %d", k), func(n int) (int, int) { return 0, clamp(k, n) }})
		out = append(out, amountClause{fmt.Sprintf("take %d", k), func(n int) (int, int) { return 0, clamp(k, n) }})
		if k >= 1 {
			out = append(out, amountClause{fmt.Sprintf("last %d", k), func(n int) (int, int) { return clamp(n-k, n), n }})
		}
	}
	return out
}

var c04Special = []string{
	"'aa'", "'aba'", "'a' maybe 'a'", "at least 1 'a'", "at least 1 'a' fewest", "('a' = x) maybe 'b'", "(any = x) x", "maybe 'a' maybe 'b'",
	"at least 0 'a' 'b'", "'a' or 'ab'", "any any", "at most 2 any", "'b' at least 0 'a' fewest", "not 'a'", "in 'a', 'b' 'a'", "@/a+b?/", "@/(a|b)\\1/",
}

var c04Multiline = []string{"line start any", "any line end", "whole line", "'a' '\\n'", "at least 1 not '\\n'", "'\\n' or 'a'", "any '\\n' any", "@/^a/", "whitespace"}

func runC04(c *Ctx) {
	installStepHook()
	defer flushInstKinds(c)
	maxLen := c.Pick(5, 6)
	tab := texts("ab", maxLen)
	clauses := amountClauses(maxLen + 1)
	unit := func(body string, txts []string, replace bool) {
		runC04Body(c, body, txts, clauses, replace)
	}
	if c.Level("special") {
		for _, b := range c04Special {
			b := b
			if c.Unit(func() string { return b }) {
				unit(b, tab, true)
			}
		}
	}
	if c.Level("multiline") {
		tnl := texts("ab\n", c.Pick(4, 5))
		for _, b := range c04Multiline {
			b := b
			if c.Unit(func() string { return b }) {
				unit(b, tnl, true)
			}
		}
	}
	// optional captures named in the replacement: a match that does not bind the name must not see
	// the binding of an earlier match of the window
	if c.Level("optional captures") {
		for _, b := range []string{"maybe ('b' = x) 'a'", "('a' = x) or 'b'", "at least 0 ('b' = x) fewest 'a'", "'a' maybe ('b' = x)", "('a' = x 'a') or ('a' = y)"} {
			b := b
			if c.Unit(func() string { return b }) {
				unit(b, tab, true)
			}
		}
	}
	// long match sequences: every total of 0..140 matches x window sizes around the powers of two
	// (the `last n` window is a queue; `skip`/`take` count up to large values)
	if c.Level("long sequences") {
		var lc []amountClause
		for _, cl := range amountClauses(66) {
			f := strings.Fields(cl.src)
			n := 0
			fmt.Sscan(f[len(f)-1], &n)
			s := 0
			fmt.Sscan(f[1], &s)
			keep := func(x int) bool { return x <= 6 || x == 15 || x == 16 || x == 17 || x == 31 || x == 32 || x == 33 || x >= 63 }
			if len(f) == 4 && !(keep(s) && (n == 1 || n == 16 || n == 17 || n == 40)) {
				continue
			}
			if len(f) == 2 && !keep(n) {
				continue
			}
			lc = append(lc, cl)
		}
		// amounts spelled with leading zeros are decimal numbers all the same
		cl := func(x, n int) int {
			if x > n {
				return n
			}
			return x
		}
		lc = append(lc,
			amountClause{"top 010", func(n int) (int, int) { return 0, cl(10, n) }}, amountClause{"take 08", func(n int) (int, int) { return 0, cl(8, n) }},
			amountClause{"skip 010", func(n int) (int, int) { return cl(10, n), n }}, amountClause{"last 017", func(n int) (int, int) { return n - cl(17, n), n }},
			amountClause{"skip 010 take 010", func(n int) (int, int) { return cl(10, n), cl(20, n) }}, amountClause{"skip 00 take 007", func(n int) (int, int) { return 0, cl(7, n) }},
			amountClause{"last 0100", func(n int) (int, int) { return n - cl(100, n), n }})
		for _, bt := range [][2]string{{"'a'", "a"}, {"'a' maybe 'b'", "ab"}, {"any", "ab"}, {"('a' = x) or 'b'", "ab"}} {
			bt := bt
			var txts []string
			for k := 0; k <= c.Pick(140, 300); k++ {
				txts = append(txts, strings.Repeat(bt[1], k))
			}
			if c.Unit(func() string { return bt[0] + " on 0.." + itoa(len(txts)-1) + " repetitions of " + strQuote(bt[1]) }) {
				runC04Body(c, bt[0], txts, lc, true)
			}
		}
	}
	g := gramD1()
	for n := 1; n <= 3; n++ {
		if !c.Level("D1:n=" + itoa(n)) {
			return
		}
		for _, body := range g.Seqs(n) {
			src := renderSeq(body)
			if c.Unit(func() string { return src }) {
				unit(src, tab, n <= 2)
			}
		}
	}
}

func runC04Body(c *Ctx, body string, txts []string, clauses []amountClause, replace bool) {
	c.Count("bodies", 1)
	kinds := []string{"find"}
	if replace {
		kinds = append(kinds, "replace")
	}
	for _, kind := range kinds {
		mk := func(amount string) string {
			if kind == "find" {
				return "find " + amount + " " + body
			}
			with := " with 'x' value '#' matchNumber '@' startOffset '-' endOffset ':' lineNumber ' ' tn"
			for _, name := range []string{"x", "y"} {
				if strings.Contains(body, "= "+name) {
					with += " '<' " + name + " '>'"
				}
			}
			// a transform that reads the built-ins: its result belongs to the match, not to the matched text
			return "set tn to transform return match + '/' + matchNumber + '/' + startOffset + '/' + lineNumber end\nreplace " + amount + " " + body + with
		}
		all, err, pi := compileSafe(mk("all"))
		if err != nil || pi != nil {
			c.Violation("COMPILE "+kind, fmt.Sprintf("%q rejected: %v %v", mk("all"), err, pi), map[string]any{"kind": "compile", "src": mk("all"), "want": "accepted"})
			return
		}
		A := make([][]string, len(txts))
		for i, t := range txts {
			ms, pi := runSafe(all, t)
			if pi != nil {
				A[i] = nil
				continue
			}
			A[i] = matchRecords(ms)
		}
		for _, cl := range clauses {
			src := mk(cl.src)
			c.Sub(src)
			v, err, pi := compileSafe(src)
			if err != nil || pi != nil {
				c.Violation("COMPILE "+kind+" "+strings.Fields(cl.src)[0], fmt.Sprintf("%q rejected: %v %v", src, err, pi), map[string]any{"kind": "compile", "src": src, "want": "accepted"})
				continue
			}
			for i, t := range txts {
				c.Eval(1)
				if len(A[i]) >= 2 {
					c.Nontrivial(1)
				}
				ms, pi := runSafe(v, t)
				if pi != nil {
					c.Violation("RUN-PANIC "+pi.Site, fmt.Sprintf("%q on %q panics: %s", src, t, pi.Msg), map[string]any{"kind": "window", "src": src, "all": mk("all"), "text": t})
					continue
				}
				lo, hi := cl.pick(len(A[i]))
				want := A[i][lo:hi]
				got := matchRecords(ms)
				if kind == "replace" {
					// totalMatches-dependent items are not used; records are comparable as they are
				}
				c.Outcome(fmt.Sprintf("%d/%d/%d", len(A[i]), lo, hi))
				if strings.Join(got, "\n") != strings.Join(want, "\n") {
					c.Violation("WINDOW "+kind+" "+clauseKind(cl.src), fmt.Sprintf("%q on %q: got %v, want A[%d:%d] = %v", src, t, got, lo, hi, want),
						map[string]any{"kind": "window", "src": src, "all": mk("all"), "text": t, "lo": lo, "hi": hi})
				}
			}
		}
	}
}

func clauseKind(s string) string {
	f := strings.Fields(s)
	if f[0] == "skip" && len(f) > 2 {
		return "skip-take"
	}
	return f[0]
}
