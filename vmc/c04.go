package main

import (
	"fmt"
	"strings"
)

func init() {
	register(&Check{
		ID:    "C04",
		Level: "exploration",
		Rule: "metamorphic, full product: every body B (all D1 programs of <= n nodes, overlap-prone literals, nullable and multi-line bodies, bodies with captures) x every text over {a,b} (resp. {a,b,\\n}) up to the length bound x EVERY amount clause skip s / skip s take t / top n / take n / last n with s,t,n in 0..maxlen+1, as find and as replace; " +
			"each clause must return exactly the slice of A = `find all B` that the statement names, records compared field by field incl. MatchNumber; non-trivial = distinct (body,text,clause) triples with len(A) >= 2",
		Assume: []string{"`last 0` is excluded (undocumented)", "A itself is validated by C01/C03"},
		Budget: map[string]int{"quick": 120, "thorough": 1200},
		Run:    runC04,
	})
}

type amountClause struct {
	src  string
	pick func(n int) (lo, hi int) // slice of A selected
}

func amountClauses(max int) []amountClause {
	clamp := func(x, n int) int {
		if x > n {
			return n
		}
		if x < 0 {
			return 0
		}
		return x
	}
	var out []amountClause
	for s := 0; s <= max; s++ {
		s := s
		out = append(out, amountClause{fmt.Sprintf("skip %d", s), func(n int) (int, int) { return clamp(s, n), n }})
		for t := 0; t <= max; t++ {
			t := t
			out = append(out, amountClause{fmt.Sprintf("skip %d take %d", s, t), func(n int) (int, int) { return clamp(s, n), clamp(s+t, n) }})
		}
	}
	for k := 0; k <= max; k++ {
		k := k
		out = append(out, amountClause{fmt.Sprintf("top %d", k), func(n int) (int, int) { return 0, clamp(k, n) }})
		out = append(out, amountClause{fmt.Sprintf("take %d", k), func(n int) (int, int) { return 0, clamp(k, n) }})
		if k >= 1 {
			out = append(out, amountClause{fmt.Sprintf("last %d", k), func(n int) (int, int) { return clamp(n-k, n), n }})
		}
	}
	return out
}

var c04Special = []string{
	"'aa'", "'aba'", "'a' maybe 'a'", "at least 1 'a'", "at least 1 'a' fewest", "('a' = x) maybe 'b'", "(any = x) x", "maybe 'a' maybe 'b'",
	"at least 0 'a' 'b'", "'a' or 'ab'", "any any", "at most 2 any", "'b' at least 0 'a' fewest", "not 'a'", "in 'a', 'b' 'a'", "@/a+b?/", "@/(a|b)\\1/",
}

var c04Multiline = []string{"line start any", "any line end", "whole line", "'a' '\\n'", "at least 1 not '\\n'", "'\\n' or 'a'", "any '\\n' any", "@/^a/", "whitespace"}

func runC04(c *Ctx) {
	installStepHook()
	defer flushInstKinds(c)
	maxLen := c.Pick(5, 6)
	tab := texts("ab", maxLen)
	clauses := amountClauses(maxLen + 1)
	unit := func(body string, txts []string, replace bool) {
		runC04Body(c, body, txts, clauses, replace)
	}
	if c.Level("special") {
		for _, b := range c04Special {
			b := b
			if c.Unit(func() string { return b }) {
				unit(b, tab, true)
			}
		}
	}
	if c.Level("multiline") {
		tnl := texts("ab\n", c.Pick(4, 5))
		for _, b := range c04Multiline {
			b := b
			if c.Unit(func() string { return b }) {
				unit(b, tnl, true)
			}
		}
	}
	g := gramD1()
	for n := 1; n <= 3; n++ {
		if !c.Level("D1:n=" + itoa(n)) {
			return
		}
		for _, body := range g.Seqs(n) {
			src := renderSeq(body)
			if c.Unit(func() string { return src }) {
				unit(src, tab, n <= 2)
			}
		}
	}
}

func runC04Body(c *Ctx, body string, txts []string, clauses []amountClause, replace bool) {
	c.Count("bodies", 1)
	kinds := []string{"find"}
	if replace {
		kinds = append(kinds, "replace")
	}
	for _, kind := range kinds {
		mk := func(amount string) string {
			if kind == "find" {
				return "find " + amount + " " + body
			}
			return "replace " + amount + " " + body + " with 'x' value '#' matchNumber '@' startOffset '-' endOffset ':' lineNumber"
		}
		all, err, pi := compileSafe(mk("all"))
		if err != nil || pi != nil {
			c.Violation("COMPILE "+kind, fmt.Sprintf("%q rejected: %v %v", mk("all"), err, pi), map[string]any{"kind": "compile", "src": mk("all"), "want": "accepted"})
			return
		}
		A := make([][]string, len(txts))
		for i, t := range txts {
			ms, pi := runSafe(all, t)
			if pi != nil {
				A[i] = nil
				continue
			}
			A[i] = matchRecords(ms)
		}
		for _, cl := range clauses {
			src := mk(cl.src)
			v, err, pi := compileSafe(src)
			if err != nil || pi != nil {
				c.Violation("COMPILE "+kind+" "+strings.Fields(cl.src)[0], fmt.Sprintf("%q rejected: %v %v", src, err, pi), map[string]any{"kind": "compile", "src": src, "want": "accepted"})
				continue
			}
			for i, t := range txts {
				c.Eval(1)
				if len(A[i]) >= 2 {
					c.Nontrivial(1)
				}
				ms, pi := runSafe(v, t)
				if pi != nil {
					c.Violation("RUN-PANIC "+pi.Site, fmt.Sprintf("%q on %q panics: %s", src, t, pi.Msg), map[string]any{"kind": "window", "src": src, "all": mk("all"), "text": t})
					continue
				}
				lo, hi := cl.pick(len(A[i]))
				want := A[i][lo:hi]
				got := matchRecords(ms)
				if kind == "replace" {
					// totalMatches-dependent items are not used; records are comparable as they are
				}
				c.Outcome(fmt.Sprintf("%d/%d/%d", len(A[i]), lo, hi))
				if strings.Join(got, "\n") != strings.Join(want, "\n") {
					c.Violation("WINDOW "+kind+" "+clauseKind(cl.src), fmt.Sprintf("%q on %q: got %v, want A[%d:%d] = %v", src, t, got, lo, hi, want),
						map[string]any{"kind": "window", "src": src, "all": mk("all"), "text": t, "lo": lo, "hi": hi})
				}
			}
		}
	}
}

func clauseKind(s string) string {
	f := strings.Fields(s)
	if f[0] == "skip" && len(f) > 2 {
		return "skip-take"
	}
	return f[0]
}
