package main

import (
	"fmt"
	"strings"
)

// Reference statement typing (LanguageDetails.md "Statement Type Requirements").
type PS struct {
	K    string // set if ifelse return debug loop break continue
	E    *PE
	Name string
	A, B []*PS
}

func (s *PS) src() string {
	switch s.K {
	case "set":
		return "set " + s.Name + " to " + s.E.renderMin()
	case "return":
		return "return " + s.E.renderMin()
	case "debug":
		return "debug " + s.E.renderMin()
	case "if":
		return "if " + s.E.renderMin() + " then " + stmtsSrc(s.A) + " end"
	case "ifelse":
		return "if " + s.E.renderMin() + " then " + stmtsSrc(s.A) + " else " + stmtsSrc(s.B) + " end"
	case "loop":
		return "loop " + stmtsSrc(s.A) + " end"
	}
	return s.K
}

func stmtsSrc(l []*PS) string {
	var p []string
	for _, s := range l {
		p = append(p, s.src())
	}
	return strings.Join(p, " ")
}

// verdict: 1 accept, 0 reject, -1 don't care
func stmtsVerdict(l []*PS, predicate, inLoop bool) int {
	res := 1
	for _, s := range l {
		v := 1
		switch s.K {
		case "set", "debug":
			v = exprVerdict(s.E, -1)
		case "return":
			t := typeOf(s.E)
			switch {
			case t == TErr:
				v = 0
			case t == TDontCare:
				v = -1
			case predicate && t != TBool, !predicate && t == TBool:
				v = 0
			}
		case "if", "ifelse":
			v = exprVerdict(s.E, int(TBool))
			for _, sub := range [][]*PS{s.A, s.B} {
				if w := stmtsVerdict(sub, predicate, inLoop); w == 0 {
					v = 0
				} else if w == -1 && v == 1 {
					v = -1
				}
			}
		case "loop":
			v = stmtsVerdict(s.A, predicate, true)
		case "break", "continue":
			if !inLoop {
				v = 0
			}
		}
		if v == 0 {
			return 0
		}
		if v == -1 {
			res = -1
		}
	}
	return res
}

func exprVerdict(e *PE, need int) int {
	t := typeOf(e)
	if t == TErr {
		return 0
	}
	if t == TDontCare {
		return -1
	}
	if need >= 0 && int(t) != need {
		return 0
	}
	return 1
}

// definitelyExits: does executing the list once always reach break/return (so a
// loop around it terminates)? Conservative: anything unclear counts as "no".
func definitelyExits(l []*PS) bool {
	for _, s := range l {
		switch s.K {
		case "break", "return":
			return true
		case "continue":
			return false
		case "if":
			if hasKindPS(s.A, "continue") {
				return false
			}
		case "ifelse":
			if definitelyExits(s.A) && definitelyExits(s.B) {
				return true
			}
			if hasKindPS(s.A, "continue") || hasKindPS(s.B, "continue") {
				return false
			}
		case "loop":
			if !definitelyExits(s.A) {
				return false
			}
		}
	}
	return false
}

func hasKindPS(l []*PS, k string) bool {
	for _, s := range l {
		if s.K == k || hasKindPS(s.A, k) || hasKindPS(s.B, k) {
			return true
		}
	}
	return false
}

func allLoopsTerminate(l []*PS) bool {
	for _, s := range l {
		if s.K == "loop" && !definitelyExits(s.A) {
			return false
		}
		if !allLoopsTerminate(s.A) || !allLoopsTerminate(s.B) {
			return false
		}
	}
	return true
}

const c12Prelude = "set s to 'a' set n to 2 set b to true "

func c12Exprs() (good map[PT][]*PE, bad []*PE) {
	s, n, b, u := leafVar("s", TStr), leafVar("n", TNum), leafVar("b", TBool), leafVar("u", TStr)
	good = map[PT][]*PE{
		TStr:  {leafStr("a"), s, u, bin("+", s, n), un("tail", leafVar("match", TStr))},
		TNum:  {leafNum(1), n, bin("*", n, leafNum(2)), bin("-", s, leafNum(1)), bin("%", leafVar("match", TStr), leafNum(3))},
		TBool: {leafBool(true), b, bin(">", n, leafNum(1)), bin("==", s, leafStr("a")), un("not", b), bin("and", b, n), bin("<", b, s)},
	}
	bad = []*PE{bin("+", b, leafNum(1)), bin("and", n, b), un("not", n), un("head", n), bin("-", s, leafStr("a")), bin("or", leafStr("a"), b), bin("*", b, b), un("tail", b), bin("-", b, leafNum(1))}
	return
}

func init() {
	register(&Check{
		ID:    "C12",
		Level: "exploration",
		Rule: "(1) every operator x (lhs type, rhs type) cell and every unary x type over type-representative leaves (literal, set variable, unset variable, compound) in predicate and transform context, and all expression trees of depth 2 over them; (2) every statement list of <= 2 statements over the full statement pool and of 3 statements over the simple pool {set, return, debug, break, continue, if, if-else, loop..break, loop..continue, nested loops, break after an inner loop} x well-typed/ill-typed expressions, in both contexts, every variable keeping one type; " +
			"oracle: a reference type checker written from the documented tables: accept iff reference-accept (don't-care: bool with - * / % and a number on the right); every accepted program whose loops provably terminate is RUN on two match texts and must not panic; non-trivial = distinct programs the reference rejects, or accepts with >= 2 statements",
		Assume: []string{"termination of generated loops is decided by a conservative syntactic rule; programs it cannot prove terminating are compiled but not run"},
		Budget: map[string]int{"quick": 120, "thorough": 900},
		Run:    runC12,
	})
}

func c12Check(c *Ctx, body []*PS, predicate bool, label string) {
	c12CheckOpt(c, body, predicate, label, true)
}

// c12CheckOpt: run=false compiles only (the variable may be unset on one path, which is the
// known finding F-dynamic-type's territory at run time).
func c12CheckOpt(c *Ctx, body []*PS, predicate bool, label string, run bool) {
	want := stmtsVerdict(body, predicate, false)
	var src string
	if predicate {
		src = "set p to pattern at least 1 any begin " + c12Prelude + stmtsSrc(body) + " end\nfind all p"
	} else {
		src = "set f to transform " + c12Prelude + stmtsSrc(body) + " end\nreplace all at least 1 any with f"
	}
	c.Eval(1)
	if want == 0 || len(body) >= 2 {
		c.Nontrivial(1)
	}
	v, err, pi := compileSafe(src)
	if pi != nil {
		c.Violation("COMPILE-PANIC "+pi.Site, fmt.Sprintf("%q panics: %s", src, pi.Msg), map[string]any{"kind": "compile", "src": src})
		return
	}
	got := 1
	if err != nil {
		got = 0
		if strings.HasPrefix(err.Error(), "ParseError") || strings.HasPrefix(err.Error(), "LexError") {
			c.Violation("NOT-A-TYPE-ERROR", fmt.Sprintf("%q: expected a verdict of the type checker, got %s", src, firstLine(err.Error())), map[string]any{"kind": "compile", "src": src})
			return
		}
	}
	c.Outcome(fmt.Sprint(got, want))
	ctx := "transform"
	if predicate {
		ctx = "predicate"
	}
	if want >= 0 && got != want {
		verb := map[int]string{1: "accepted", 0: "rejected"}
		c.Violation("TYPING "+verb[got]+" "+ctx+" "+label, fmt.Sprintf("%s: `%s` is %s, the documented rules say %s", ctx, stmtsSrc(body), verb[got], verb[want]),
			map[string]any{"kind": "compile", "src": src, "want": verb[want]})
		return
	}
	if got == 1 && run && allLoopsTerminate(body) {
		for _, t := range []string{"7", "ab"} {
			_, pi := runSafe(v, t)
			c.Count("accepted_programs_run", 1)
			if pi != nil {
				c.Violation("RUN-PANIC "+pi.Site+" "+label, fmt.Sprintf("accepted %s `%s` panics on %q: %s", ctx, stmtsSrc(body), t, pi.Msg), map[string]any{"kind": "spans", "src": src, "text": t, "want": "?"})
				return
			}
		}
	}
}

func stmtLabel(body []*PS) string {
	acc := map[string]bool{}
	var w func(l []*PS)
	w = func(l []*PS) {
		for _, s := range l {
			acc[s.K] = true
			w(s.A)
			w(s.B)
		}
	}
	w(body)
	return joinSet(acc)
}

func runC12(c *Ctx) {
	good, bad := c12Exprs()
	// (1) operator cells
	if c.Level("cells") {
		reps := map[PT][]*PE{
			TStr:  {leafStr("a"), leafVar("s", TStr), leafVar("u", TStr), bin("+", leafStr("a"), leafNum(1))},
			TNum:  {leafNum(1), leafVar("n", TNum), bin("+", leafNum(1), leafNum(1))},
			TBool: {leafBool(true), leafVar("b", TBool), bin("==", leafNum(1), leafNum(1))},
		}
		var all []*PE
		for _, t := range []PT{TStr, TNum, TBool} {
			all = append(all, reps[t]...)
		}
		emit := func(e *PE) {
			if !c.Unit(func() string { return e.renderMin() }) {
				return
			}
			for _, pred := range []bool{false, true} {
				c12Check(c, []*PS{{K: "return", E: e}}, pred, "cell "+opOf(e)+" rhs="+rhsType(e))
				c12Check(c, []*PS{{K: "set", Name: "t", E: e}, {K: "return", E: leafStr("x")}}, pred, "cell-set "+opOf(e)+" rhs="+rhsType(e))
				c12Check(c, []*PS{{K: "if", E: e, A: []*PS{{K: "return", E: leafNum(1)}}}, {K: "return", E: leafNum(2)}}, pred, "cell-if "+opOf(e)+" rhs="+rhsType(e))
			}
		}
		for _, op := range binOps {
			for _, l := range all {
				for _, r := range all {
					emit(bin(op, l, r))
				}
			}
		}
		for _, op := range []string{"not", "head", "tail"} {
			for _, x := range all {
				emit(un(op, x))
			}
		}
		// depth 2: an operator applied to the result of another
		small := []*PE{leafStr("a"), leafNum(1), leafBool(true)}
		for _, op1 := range binOps {
			for _, op2 := range binOps {
				for _, a := range small {
					for _, b := range small {
						for _, d := range small {
							emit(bin(op1, bin(op2, a, b), d))
							emit(bin(op1, d, bin(op2, a, b)))
						}
					}
				}
			}
		}
	}
	// (2) statements
	var simple []*PS
	for _, t := range []PT{TStr, TNum, TBool} {
		for i, e := range good[t] {
			simple = append(simple, &PS{K: "return", E: e})
			if i < 2 {
				simple = append(simple, &PS{K: "set", Name: "t", E: e}, &PS{K: "debug", E: e})
			}
		}
	}
	for i, e := range bad {
		simple = append(simple, &PS{K: "return", E: e})
		if i < 3 {
			simple = append(simple, &PS{K: "set", Name: "t", E: e}, &PS{K: "debug", E: e})
		}
	}
	simple = append(simple, &PS{K: "break"}, &PS{K: "continue"})
	conds := []*PE{good[TBool][0], good[TBool][2], good[TBool][4], good[TStr][1], good[TNum][1], bad[1], bad[2]}
	inner := []*PS{{K: "return", E: good[TStr][0]}, {K: "return", E: good[TNum][0]}, {K: "return", E: good[TBool][0]}, {K: "return", E: bad[0]},
		{K: "break"}, {K: "continue"}, {K: "set", Name: "t", E: good[TNum][1]}, {K: "debug", E: good[TStr][1]}}
	var compound []*PS
	for _, cd := range conds {
		for _, x := range inner {
			compound = append(compound, &PS{K: "if", E: cd, A: []*PS{x}})
			for _, y := range inner[:5] {
				compound = append(compound, &PS{K: "ifelse", E: cd, A: []*PS{x}, B: []*PS{y}})
			}
		}
	}
	brk, cont := &PS{K: "break"}, &PS{K: "continue"}
	lp := func(b ...*PS) *PS { return &PS{K: "loop", A: b} }
	ifb := func(cd *PE, b ...*PS) *PS { return &PS{K: "if", E: cd, A: b} }
	tr := good[TBool][0]
	for _, x := range inner {
		compound = append(compound, lp(x, brk), lp(brk, x), lp(x, cont), lp(ifb(tr, x), brk), lp(lp(x, brk), brk), lp(lp(brk), x, brk), lp(ifb(tr, brk), x, brk))
	}
	compound = append(compound,
		lp(lp(brk), brk), lp(lp(brk), cont), lp(lp(brk, brk)), lp(lp(cont)), lp(ifb(tr, lp(brk)), brk), lp(lp(lp(brk), brk), brk),
		lp(&PS{K: "ifelse", E: tr, A: []*PS{lp(brk)}, B: []*PS{brk}}, brk), ifb(tr, lp(brk), brk), ifb(tr, lp(brk)), lp(lp(brk), ifb(tr, cont), brk))
	tv := func(t PT) *PE { return leafVar("t", t) }
	pool := append(append([]*PS{}, simple...), compound...)
	c.Count("statement_pool", int64(len(pool)))
	emitList := func(l []*PS) {
		if !c.Unit(func() string { return stmtsSrc(l) }) {
			return
		}
		lab := stmtLabel(l)
		for _, pred := range []bool{false, true} {
			c12Check(c, l, pred, lab)
		}
	}
	if c.Level("branch-assigned variables") {
		for _, t := range []PT{TStr, TNum, TBool} {
			for _, where := range []string{"then", "else", "both"} {
				uses := []*PE{tv(t), bin("-", tv(t), leafNum(1)), un("not", tv(t)), un("head", tv(t)), bin("and", tv(t), leafBool(true)), bin("+", tv(t), leafStr("x")), bin(">", tv(t), leafNum(1)), bin("*", leafNum(2), tv(t))}
				for _, u := range uses {
					set := &PS{K: "set", Name: "t", E: good[t][0]}
					other := &PS{K: "set", Name: "o", E: leafNum(1)}
					var ifs *PS
					switch where {
					case "then":
						ifs = &PS{K: "ifelse", E: tr, A: []*PS{set}, B: []*PS{other}}
					case "else":
						ifs = &PS{K: "ifelse", E: tr, A: []*PS{other}, B: []*PS{set}}
					default:
						ifs = &PS{K: "ifelse", E: tr, A: []*PS{set}, B: []*PS{{K: "set", Name: "t", E: good[t][1]}}}
					}
					for _, last := range []*PS{{K: "return", E: u}, {K: "set", Name: "r", E: u}, {K: "if", E: u, A: []*PS{{K: "debug", E: leafNum(1)}}}} {
						l := []*PS{ifs, last}
						if c.Unit(func() string { return stmtsSrc(l) }) {
							for _, pred := range []bool{false, true} {
								c12CheckOpt(c, l, pred, "branch-assigned "+where, where == "both")
							}
						}
					}
				}
			}
		}
	}
	if c.Level("two bodies in one source") {
		// the typing of one transform / predicate must not depend on the bodies compiled before it
		firsts := []string{"set n to 1 set flag to true set s to 'a' return 'x'", "set n to 'a' set flag to 2 return 'y'", "return 'z'"}
		seconds := []struct {
			body string
			ok   bool
		}{{"return n - '1'", false}, {"return n + '1'", true}, {"return flag + '<' + match", true}, {"return not flag", false}, {"return n * 2", true}, {"return s and true", false}, {"return head s", true}, {"if flag then return 'a' end return 'b'", false}}
		for _, f := range firsts {
			for _, sec := range seconds {
				for _, firstKind := range []string{"transform", "predicate"} {
					f, sec, firstKind := f, sec, firstKind
					var src string
					if firstKind == "transform" {
						src = "set f1 to transform " + f + " end\n"
					} else {
						src = "set p1 to pattern 'a' begin " + strings.Replace(f, "return '", "debug '", 1) + " return true end\n"
					}
					src += "set f2 to transform " + sec.body + " end\nreplace all 'a' with f2"
					if !c.Unit(func() string { return src }) {
						continue
					}
					c.Eval(1)
					c.Nontrivial(1)
					_, err, pi := compileSafe(src)
					if pi != nil {
						c.Violation("COMPILE-PANIC "+pi.Site, fmt.Sprintf("%q panics: %s", src, pi.Msg), map[string]any{"kind": "compile", "src": src})
						continue
					}
					if (err == nil) != sec.ok {
						verb := map[bool]string{true: "accepted", false: "rejected"}
						c.Violation("TYPING two-bodies "+verb[err == nil], fmt.Sprintf("`%s` after a %s `%s`: %s, the documented rules say %s (every body starts from match/matchLength only)", sec.body, firstKind, f, verb[err == nil], verb[sec.ok]),
							map[string]any{"kind": "compile", "src": src, "want": verb[sec.ok]})
					}
					// what was accepted is well typed: both transforms in ONE replacement (in both orders) must
					// evaluate without a type failure and yield what each yields alone
					if firstKind == "transform" && sec.ok && err == nil {
						defs := "set f1 to transform " + f + " end\nset f2 to transform " + sec.body + " end\n"
						alone := map[string]string{}
						for _, name := range []string{"f1", "f2"} {
							if av, aerr, api := compileSafe(defs + "replace all 'a' with " + name); aerr == nil && api == nil {
								if ms, pi := runSafe(av, "a"); pi == nil && len(ms) == 1 {
									alone[name] = ms[0].Replacement.GetValueOrDefault("")
								}
							}
						}
						for _, order := range [][]string{{"f1", "f2"}, {"f2", "f1"}, {"f1", "f2", "f1", "f2"}} {
							both := defs + "replace all 'a' with " + strings.Join(order, " ")
							bv, berr, bpi := compileSafe(both)
							if berr != nil || bpi != nil {
								c.Violation("TYPING two-transforms rejected", fmt.Sprintf("%q: %v %v", both, berr, bpi), map[string]any{"kind": "compile", "src": both, "want": "accepted"})
								continue
							}
							c.Eval(1)
							ms, pi := runSafe(bv, "a")
							want := ""
							for _, n := range order {
								want += alone[n]
							}
							if pi != nil {
								c.Violation("ACCEPTED-BUT-FAILS "+firstLine(pi.Msg), fmt.Sprintf("%q is accepted, yet running it fails: %s", both, pi.Msg), map[string]any{"kind": "spans", "src": both, "text": "a", "want": "?"})
							} else if len(ms) != 1 || ms[0].Replacement.GetValueOrDefault("") != want {
								c.Violation("TWO-TRANSFORMS value", fmt.Sprintf("%q on \"a\": replacement %q, each transform alone gives %q", both, ms[0].Replacement.GetValueOrDefault(""), want), map[string]any{"kind": "spans", "src": both, "text": "a", "want": want})
							}
						}
					}
				}
			}
		}
	}
	if c.Level("statements:1") {
		for _, a := range pool {
			emitList([]*PS{a})
		}
	}
	if c.Level("statements:2") {
		for _, a := range pool {
			for _, b := range pool {
				emitList([]*PS{a, b})
			}
		}
	}
	if c.Level("statements:3") {
		p3 := append(append([]*PS{}, simple...), lp(lp(brk), brk), lp(brk), ifb(tr, brk), lp(ifb(tr, cont), brk), ifb(good[TNum][1], brk), lp(lp(brk), cont, brk))
		if c.Quick() {
			p3 = append(append([]*PS{}, simple[:12]...), brk, cont, lp(lp(brk), brk), lp(brk), ifb(tr, brk), lp(ifb(tr, cont), brk))
		}
		for _, a := range p3 {
			for _, b := range p3 {
				for _, d := range p3 {
					emitList([]*PS{a, b, d})
				}
			}
		}
	}
	// what the checker accepts with a built-in's static type must find the built-in at run time, also when a
	// capture carries the same name (shared with C09: accepted programs, every operator, must evaluate)
	runC09Shadow(c)
}
