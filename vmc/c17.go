package main

import (
	"encoding/json"
	"fmt"
	"os"
	"path/filepath"
	"reflect"
	"strings"
	"unicode/utf8"

	"github.com/jmeaster30/vore/libvore"
	"github.com/jmeaster30/vore/libvore/engine"
)

func init() {
	register(&Check{
		ID:     "C17",
		Level:  "exploration",
		Rule:   "31 programs (find and replace, no / flat / nested variables from named loops, zero matches, skip windows, two commands, replacement text with per-cent signs) x every text of <= 4 symbols (thorough: also every text of 5 symbols over a 7-symbol subset) over {a, \", \\, newline, 0x01, e-acute (2 bytes), 0xff, tab, %, colon, comma, U+1F600 (4 bytes, outside the BMP)}, plus four programs run with RunFiles on files whose names hold backslashes, quotes, blanks, control characters, per-cent signs, invalid UTF-8 and non-BMP characters, plus three programs on every list length 0..1100 (thorough 4200) matches: Json() and FormattedJson() must return, be valid JSON, decode to equal documents with one object per match whose filename, matchNumber, offset, line, column, value, variables (recursively) equal the in-memory match and whose replacement key is present exactly for replace commands; strings are compared exactly when valid UTF-8 and after U+FFFD substitution otherwise; non-trivial = distinct (program,text) pairs with at least one match",
		Assume: []string{"encoding/json is the arbiter of validity and decoding"},
		Budget: map[string]int{"quick": 120, "thorough": 900},
		Run:    runC17,
	})
}

var c17Programs = []string{
	"find all any", "find all at least 1 not 'a'", "find all (any = x) maybe (any = y)", "find all 'zzz'", "replace all any with 'q' value", "replace all (any = x) with x x",
	"replace all 'a' with ''", "replace all any with", "find all at least 1 (any = c) named chars", "find all at least 1 (maybe 'a' (not 'a') = el) named row",
	"find all at least 1 (at least 1 ((not '\\n') = c) named inner maybe '\\n') named outer", "replace all at least 1 (any = c) named l with 'R'", "find skip 1 take 2 any",
	"find last 1 any", "find all @/(?<n>.)(.)?/", "find all line start at least 1 not '\\n'", "find all 'a'\nreplace all any with 'b'", "replace all 'a' with 'X'\nfind all any", "replace all any with ''\nfind all (any = x)\nreplace all 'a' with x", "find all whole line", "find all (any = value) (any = filename)",
	"set t to transform return match + '\"' + '\\\\' end\nreplace all any with t", "find all caseless 'A' any", "find all in 'a', '\"', '\\\\' any", "find top 1 (at least 1 any) = all", "find all (not in 'a') = matchNumber",
	"replace all any with '100% of %d' value '%s'", "replace all ((not 'a') = p) maybe 'a' with p p",
	// one table holding a plain capture next to a named loop, at the top level and inside an iteration
	"find all (any = d) at least 1 ((not 'a') = c) named lp", "find all at least 1 ((any = c) at least 0 ('a' = d) named inner) named outer", "replace all (any = d) at least 0 (any = c) named lp with d",
}

// toValidUTF8 replaces every invalid byte by U+FFFD (what encoding/json does; one
// replacement per byte, not per run).
func toValidUTF8(s string) string {
	var b strings.Builder
	for i := 0; i < len(s); {
		r, size := utf8.DecodeRuneInString(s[i:])
		if r == utf8.RuneError && size == 1 {
			b.WriteRune(0xFFFD)
		} else {
			b.WriteString(s[i : i+size])
		}
		i += size
	}
	return b.String()
}

func sameString(want, got string) bool {
	if utf8.ValidString(want) {
		return want == got
	}
	return toValidUTF8(want) == got
}

func sameVars(want any, got any) bool {
	switch w := want.(type) {
	case string:
		g, ok := got.(string)
		return ok && sameString(w, g)
	case map[string]any:
		g, ok := got.(map[string]any)
		if !ok || len(g) != len(w) {
			return false
		}
		for k, v := range w {
			// keys are JSON object keys: invalid UTF-8 is replaced as well
			gv, ok := g[k]
			if !ok {
				gv, ok = g[toValidUTF8(k)]
			}
			if !ok || !sameVars(v, gv) {
				return false
			}
		}
		return true
	}
	return false
}

func rangeOK(got any, s, e int) bool {
	m, ok := got.(map[string]any)
	if !ok || len(m) != 2 {
		return false
	}
	return m["start"] == float64(s) && m["end"] == float64(e)
}

func c17Check(ms engine.Matches, doc []any, isReplace func(i int) bool) string {
	if len(doc) != len(ms) {
		return fmt.Sprintf("%d objects for %d matches", len(doc), len(ms))
	}
	for i, m := range ms {
		o, ok := doc[i].(map[string]any)
		if !ok {
			return fmt.Sprintf("element %d is not an object", i)
		}
		if fn, _ := o["filename"].(string); !sameString(m.Filename, fn) {
			return fmt.Sprintf("match %d: filename %v != %q", i, o["filename"], m.Filename)
		}
		if o["matchNumber"] != float64(m.MatchNumber) {
			return fmt.Sprintf("match %d: matchNumber %v != %d", i, o["matchNumber"], m.MatchNumber)
		}
		if !rangeOK(o["offset"], m.Offset.Start, m.Offset.End) || !rangeOK(o["line"], m.Line.Start, m.Line.End) || !rangeOK(o["column"], m.Column.Start, m.Column.End) {
			return fmt.Sprintf("match %d: offset/line/column %v %v %v differ from %v %v %v", i, o["offset"], o["line"], o["column"], m.Offset, m.Line, m.Column)
		}
		if v, ok := o["value"].(string); !ok || !sameString(m.Value, v) {
			return fmt.Sprintf("match %d: value %q != %q", i, o["value"], m.Value)
		}
		r, has := o["replacement"]
		if has != m.Replacement.HasValue() {
			return fmt.Sprintf("match %d: replacement key present=%v but the match has a replacement=%v", i, has, m.Replacement.HasValue())
		}
		if has {
			if rs, ok := r.(string); !ok || !sameString(m.Replacement.GetValue(), rs) {
				return fmt.Sprintf("match %d: replacement %q != %q", i, r, m.Replacement.GetValue())
			}
		}
		if !sameVars(m.Variables.ToGo(), o["variables"]) {
			return fmt.Sprintf("match %d: variables %v != %v", i, o["variables"], m.Variables.ToGo())
		}
		want := 7
		if has {
			want = 8
		}
		if len(o) != want {
			return fmt.Sprintf("match %d: object has %d keys, expected %d", i, len(o), want)
		}
	}
	return ""
}

func runC17(c *Ctx) {
	syms := []string{"a", "\"", "\\", "\n", "\x01", "é", "\xff", "\t", "%", ":", ",", "\U0001F600"}
	var txts []string
	var gen func(cur string, n int)
	maxN := 4
	gen = func(cur string, n int) {
		txts = append(txts, cur)
		if n == maxN {
			return
		}
		for _, s := range syms {
			gen(cur+s, n+1)
		}
	}
	gen("", 0)
	if !c.Quick() {
		// thorough: length 5 over the seven symbols that need escaping or cannot be represented
		var gen5 func(cur string, n int)
		gen5 = func(cur string, n int) {
			if n == 5 {
				txts = append(txts, cur)
				return
			}
			for _, s := range []string{"a", "\"", "\\", "\n", "\xff", "%", ":"} {
				gen5(cur+s, n+1)
			}
		}
		gen5("", 0)
	}
	// sequences that look like JSON escapes, HTML characters, and a genuine U+FFFD
	txts = append(txts, "\\u003c", "a\\u0026b\\u003e", "<&>", "\\u003c<", "\ufffd", "caf\ufffd\xff", "\\\\u003c", "\u2028\u2029", "\\/", "\\\"")
	if !c.Level("product") {
		return
	}
	for _, prog := range c17Programs {
		prog := prog
		if !c.Unit(func() string { return prog }) {
			continue
		}
		v, err, pi := compileSafe(prog)
		if err != nil || pi != nil {
			c.Count("rejected_sources", 1)
			continue
		}
		for i, t := range txts {
			if i%2000 == 0 {
				c.Sub(fmt.Sprintf("%s on text %d of %d", prog, i, len(txts)))
			}
			c17Eval(c, prog, v, t)
		}
	}
	// file names: the filename member carries the name as it is, whatever characters it is made of
	if c.Level("file names") {
		dir, err := os.MkdirTemp("", "vmc-c17-")
		if err == nil {
			defer os.RemoveAll(dir)
			var paths []string
			for _, n := range []string{"plain.txt", "back\\slash.txt", "quo\"te.txt", "\xc3\xa9.txt", "a b.txt", "%d%s.txt", "tab\tx", "new\nline", "\xff\xfe.txt", "colon:comma,.txt", "\U0001F600.txt", "<&>.txt"} {
				p := filepath.Join(dir, n)
				if os.WriteFile(p, []byte("ab a\n"+n), 0o644) == nil {
					paths = append(paths, p)
				}
			}
			for _, prog := range []string{"find all 'a'", "replace all 'a' with 'b'", "find all (any = x) 'b'", "find all 'zzz'"} {
				prog := prog
				if !c.Unit(func() string { return prog + " on files with unusual names" }) {
					continue
				}
				v, err, pi := compileSafe(prog)
				if err != nil || pi != nil {
					continue
				}
				for _, sel := range [][]string{paths, paths[:1], paths[1:3], {dir}} {
					var ms engine.Matches
					if pi := guard(func() { ms = v.RunFiles(sel, engine.NOTHING, false) }); pi != nil {
						continue // C09
					}
					c17Render(c, prog, fmt.Sprintf("files %d", len(sel)), ms)
				}
			}
		}
	}
	// long result lists: every length 0..N (the renderings must carry every match, whatever the list length)
	if c.Level("long lists") {
		for _, prog := range []string{"find all any", "replace all 'a' with 'b'", "find all ('a' = x)"} {
			for lo := 0; lo <= c.Pick(1100, 4200); lo += 50 {
				prog, lo := prog, lo
				if !c.Unit(func() string { return fmt.Sprintf("%s on %d..%d matches", prog, lo, lo+49) }) {
					continue
				}
				v, err, pi := compileSafe(prog)
				if err != nil || pi != nil {
					c.Count("rejected_sources", 1)
					continue
				}
				for n := lo; n < lo+50; n++ {
					c17Eval(c, prog, v, strings.Repeat("a", n))
				}
			}
		}
	}
}

func c17Eval(c *Ctx, prog string, v *libvore.Vore, t string) {
	ms, pi := runSafe(v, t)
	if pi != nil {
		return // C09
	}
	c17Render(c, prog, t, ms)
}

// c17Render checks both renderings of one result list against the in-memory matches.
func c17Render(c *Ctx, prog string, t string, ms engine.Matches) {
	{
		{
			c.Eval(1)
			if len(ms) > 0 {
				c.Nontrivial(1)
			}
			rec := map[string]any{"kind": "json", "src": prog, "text": t}
			var compact, formatted string
			if pi := guard(func() { compact = ms.Json() }); pi != nil {
				c.Violation("JSON-PANIC Json "+pi.Site, fmt.Sprintf("%q on %q: Json() panics: %s", prog, t, pi.Msg), rec)
				return
			}
			if pi := guard(func() { formatted = ms.FormattedJson() }); pi != nil {
				c.Violation("JSON-PANIC FormattedJson "+pi.Site, fmt.Sprintf("%q on %q: FormattedJson() panics: %s", prog, t, pi.Msg), rec)
				return
			}
			var d1, d2 any
			if !json.Valid([]byte(compact)) || !json.Valid([]byte(formatted)) || json.Unmarshal([]byte(compact), &d1) != nil || json.Unmarshal([]byte(formatted), &d2) != nil {
				c.Violation("JSON-INVALID", fmt.Sprintf("%q on %q: output is not valid JSON: %.120q", prog, t, compact), rec)
				return
			}
			if !reflect.DeepEqual(d1, d2) {
				c.Violation("JSON-COMPACT-VS-FORMATTED", fmt.Sprintf("%q on %q: compact and formatted renderings decode to different documents", prog, t), rec)
				return
			}
			arr, ok := d1.([]any)
			if !ok && !(d1 == nil && len(ms) == 0) {
				c.Violation("JSON-SHAPE", fmt.Sprintf("%q on %q: top level is not an array: %.80q", prog, t, compact), rec)
				return
			}
			if d1 == nil {
				c.Violation("JSON-SHAPE null", fmt.Sprintf("%q on %q: an empty result renders as %q, not as an empty list", prog, t, compact), rec)
				return
			}
			if len(compact) < 300 {
				c.Outcome(compact)
			} else {
				c.Outcome(fmt.Sprintf("%d objects, %d bytes", len(arr), len(compact)))
			}
			if msg := c17Check(ms, arr, nil); msg != "" {
				key := strings.Fields(msg)
				c.Violation("JSON-FIELD "+key[len(key)-1][:1]+" "+strings.SplitN(msg, ":", 2)[0][:5], fmt.Sprintf("%q on %q: %s; json=%.200q", prog, t, msg, compact), rec)
			}
		}
	}
}
