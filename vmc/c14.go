package main

import (
	"encoding/json"
	"fmt"
	"os"
	"os/exec"
	"path/filepath"
	"regexp"
	"strings"
)

func init() {
	register(&Check{
		ID:    "C14",
		Level: "translation_validation",
		Rule: "every regex of <= n nodes over atoms {a b . [ab] [^a] [a-b] \\d \\D \\s \\S \\1 \\2 \\k<n>}, groups {(r) (?:r) (?<n>r)}, quantifiers {* + ? {2} {1,} {1,2} and lazy forms} on non-nullable bodies, alternation of single pieces as a whole (sub)expression, ^ $; back-references only after their group closed; x every text over {a,b,1,' ',\\n} up to length 3-4; " +
			"`find all @/re/` (spans in order + group bindings, absent group = absent variable) is compared with (i) the reference matcher R run on an independent parse of the regex (all cases) and (ii) Go's regexp evaluated position by position with full left context (cases without back-references); R vs Go disagreement = ORACLE-DISAGREEMENT (exit 2), never a violation; programs = regexes translated, disagreements_checked = engine-vs-oracle comparisons",
		Assume: []string{"Go regexp (leftmost-first, (?m) anchors, (?s:.) prefix) is a conventional backtracking engine on the subset", "texts exclude \\r, \\f, \\v"},
		Budget: map[string]int{"quick": 150, "thorough": 1500},
		Run:    runC14,
		Prepare: func() error { return os.RemoveAll(verifRoot + "/bin/c14py") },
		Post: func(a *Agg, cov map[string]any) {
			// thorough tier: Python's re arbitrates the back-reference cases the workers recorded
			if files, _ := filepath.Glob(verifRoot + "/bin/c14py/shard-*.jsonl"); len(files) > 0 {
				out, err := exec.Command("python3", append([]string{verifRoot + "/tools/c14_arbiter.py"}, files...)...).Output()
				var res struct {
					Checked       int64      `json:"checked"`
					Disagreements [][]string `json:"disagreements"`
				}
				if err == nil && json.Unmarshal(out, &res) == nil {
					cov["python_re_validated_backreference_cases"] = res.Checked
					if len(res.Disagreements) > 0 {
						a.Counters["ORACLE-DISAGREEMENT"] += int64(len(res.Disagreements))
						cov["python_re_disagreements"] = res.Disagreements
					}
				} else {
					cov["python_re_arbiter"] = fmt.Sprintf("not run: %v", err)
				}
				os.RemoveAll(verifRoot + "/bin/c14py")
			}
			cov["programs"] = a.Counters["regexes"]
			cov["disagreements_checked"] = a.Counters["comparisons"]
			cov["model_validated_cases"] = a.Counters["r_vs_go_agree"]
			if a.Counters["ORACLE-DISAGREEMENT"] > 0 {
				cov["oracle_disagreements"] = a.Counters["ORACLE-DISAGREEMENT"]
			}
		},
	})
}

// goScan: leftmost-first match of r starting exactly at each position with full left context.
type goRx struct {
	src   string
	names []string
	byPos map[int]*regexp.Regexp
}

func toGoSyntax(s string) string { return strings.ReplaceAll(s, "(?<", "(?P<") }

func (g *goRx) at(p int) *regexp.Regexp {
	if re, ok := g.byPos[p]; ok {
		return re
	}
	re, err := regexp.Compile(fmt.Sprintf(`\A(?s:.{%d})(?m:(%s))`, p, toGoSyntax(g.src)))
	if err != nil {
		re = nil
	}
	g.byPos[p] = re
	return re
}

func (g *goRx) scan(t string) ([]Span, bool) {
	var out []Span
	p := 0
	for p < len(t) {
		re := g.at(p)
		if re == nil {
			return nil, false
		}
		m := re.FindStringSubmatchIndex(t)
		if m != nil && m[3] > m[2] {
			vars := map[string]string{}
			sub := re.SubexpNames()
			unnamed := 0
			for i := 2; i < len(m)/2; i++ {
				name := sub[i]
				if name == "" {
					unnamed++
					name = fmt.Sprintf("_%d", unnamed)
				}
				if m[2*i] >= 0 {
					vars[name] = t[m[2*i]:m[2*i+1]]
				}
			}
			out = append(out, Span{m[2], m[3], fmtVars(vars)})
			p = m[3]
		} else {
			p++
		}
	}
	return out, true
}

func rxFeatures(s string) string {
	acc := map[string]bool{}
	for _, f := range []string{`\D`, `\S`, `\d`, `\s`, "[^", "[", ".", "^", "$", "|", "(?:", "(?<", `\k`, `\1`, `\2`, "*?", "+?", "??", "}?", "{", "*", "+"} {
		if strings.Contains(s, f) {
			acc[f] = true
		}
	}
	if strings.Contains(strings.ReplaceAll(strings.ReplaceAll(s, "(?:", ""), "(?<", ""), "(") {
		acc["(group)"] = true
	}
	return joinSet(acc)
}

// c14PyCases collects, per worker, the back-reference cases for the Python arbiter (thorough tier).
var c14PyFile *os.File

func c14PyRecord(rxs string, cases [][2]string) {
	if c14PyFile == nil || len(cases) == 0 {
		return
	}
	b, _ := json.Marshal(map[string]any{"re": rxs, "cases": cases})
	c14PyFile.Write(append(b, '\n'))
}

func c14Unit(c *Ctx, rx RX, txts []string) {
	body, _, hasRef, perr := parseRx(rx.S)
	if perr != "" {
		return // not in the subset (e.g. reference before its group)
	}
	c.Count("regexes", 1)
	src := "find all @/" + rx.S + "/"
	prog := &Prog{Body: body}
	v, err, pi := compileSafe(src)
	if pi != nil || err != nil {
		c.Violation("REJECTED "+rxFeatures(rx.S), fmt.Sprintf("regex in the supported subset rejected: %q: %v %v", src, err, pi), map[string]any{"kind": "compile", "src": src, "want": "accepted"})
		return
	}
	var g *goRx
	if !hasRef {
		g = &goRx{src: rx.S, byPos: map[int]*regexp.Regexp{}}
	}
	var pyCases [][2]string
	// named groups are numbered too by most engines but not by vore: a numeric reference next to a named group is ambiguous
	pyOK := hasRef && !(strings.Contains(rx.S, "(?<") && (strings.Contains(rx.S, "\\1") || strings.Contains(rx.S, "\\2")))
	defer func() { c14PyRecord(rx.S, pyCases) }()
	for _, t := range txts {
		c.Eval(1)
		want, r := refScan(prog, t, Variants{})
		if r.blown {
			continue
		}
		if pyOK && c14PyFile != nil {
			pyCases = append(pyCases, [2]string{t, fmtSpans(want, true)})
		}
		if g != nil {
			gw, ok := g.scan(t)
			if ok {
				if !spansEqual(gw, want, true) {
					c.Count("ORACLE-DISAGREEMENT", 1)
					c.Note(fmt.Sprintf("ORACLE-DISAGREEMENT /%s/ on %q: R %s, Go regexp %s", rx.S, t, fmtSpans(want, true), fmtSpans(gw, true)))
					continue
				}
				c.Count("r_vs_go_agree", 1)
			}
		}
		if len(want) > 0 {
			c.Nontrivial(1)
		}
		stepCount, stepBudget = 0, semStepBudget
		ms, pi := runSafe(v, t)
		stepBudget = 0
		c.Count("comparisons", 1)
		if pi != nil {
			c.Violation("RUN-PANIC "+pi.Site, fmt.Sprintf("%q on %q panics: %s", src, t, pi.Msg), map[string]any{"kind": "spans", "src": src, "text": t, "want": fmtSpans(want, true), "vars": true})
			continue
		}
		got := spansOf(ms)
		c.Outcome(fmtSpans(got, true))
		if !spansEqual(got, want, true) {
			k := "SPANS"
			if spansEqual(got, want, false) {
				k = "GROUPS"
			}
			c.Violation(k+" "+rxFeatures(rx.S), fmt.Sprintf("%q on %q: got %s want %s", src, t, fmtSpans(got, true), fmtSpans(want, true)),
				map[string]any{"kind": "spans", "src": src, "text": t, "want": fmtSpans(want, true), "vars": true})
		}
	}
}

func runC14(c *Ctx) {
	if !c.Quick() {
		dir := verifRoot + "/bin/c14py"
		os.MkdirAll(dir, 0o755)
		c14PyFile, _ = os.Create(fmt.Sprintf("%s/shard-%d.jsonl", dir, c.Shard))
		defer c14PyFile.Close()
	}
	installStepHook()
	defer flushInstKinds(c)
	g := newRxGram(false)
	txts := texts("ab1 \n", 3)
	for n := 1; n <= c.Pick(3, 4); n++ {
		if !c.Level(fmt.Sprintf("full:n=%d", n)) {
			return
		}
		for _, rx := range g.bodies(n) {
			rx := rx
			if c.Unit(func() string { return "@/" + rx.S + "/" }) {
				c14Unit(c, rx, txts)
			}
		}
	}
	if c.Quick() && c.Level("full:n=4 texts<=2") {
		t2 := texts("ab1 \n", 2)
		for _, rx := range g.bodies(4) {
			rx := rx
			if c.Unit(func() string { return "@/" + rx.S + "/" }) {
				c14Unit(c, rx, t2)
			}
		}
	}
	if c.Level("fixed:many groups") {
		ten := "(a)(b)(c)(d)(e)(f)(g)(h)(i)(j)"
		for _, rs := range []string{ten + `\\10`, ten + `\\1\\10`, ten + `(k)\\11\\10`, ten + `\\9\\10`, "(a)(b)(c)(d)(e)(f)(g)(h)(i)(j|a)\\10", ten + "(k)(l)(m)(n)(o)(p)(q)(r)(s)(t)\\20\\10"} {
			rs := strings.ReplaceAll(rs, `\\\\`, `\\`)
			if c.Unit(func() string { return "@/" + rs + "/" }) {
				c14Unit(c, RX{S: rs, N: 12}, []string{"abcdefghijj", "abcdefghija0", "abcdefghijaj", "abcdefghijkkj", "abcdefghijij", "abcdefghiaa", "abcdefghijklmnopqrsttj", "abcdefghij", ""})
			}
		}
	}
	// bounds of more than one digit (and with unequal digits): the count is read as a decimal number
	if c.Level("fixed:two-digit bounds") {
		var long []string
		for k := 0; k <= 26; k++ {
			long = append(long, strings.Repeat("a", k), strings.Repeat("a", k)+"b", "b"+strings.Repeat("ab", k))
		}
		for _, rs := range []string{"a{10}", "a{12}", "a{2,10}", "a{10,}", "a{10,12}", "a{12,21}b", "(ab){11}", "a{10}?", "a{1,10}?b", "(a{2}){10}", "a{20}", "a{13,}b", "[ab]{15}", "a{0,10}", "a{9,11}"} {
			rs := rs
			if c.Unit(func() string { return "@/" + rs + "/" }) {
				c14Unit(c, RX{S: rs, N: 3}, long)
			}
		}
	}
	// bracket classes with ranges on texts that contain the range's own delimiter
	if c.Level("fixed:class ranges") {
		dash := texts("ac-x", 4)
		for _, rs := range []string{"[a-c]+", "[a-c]", "x[a-c]x", "[^a-c]+", "[a-]+", "[-a]+", "[a-c-]+", "[a-cx]+", "[x-xa-a]+", "[^-]+", "[a-c][^a-c]", "([a-c])-\\1"} {
			rs := rs
			if c.Unit(func() string { return "@/" + rs + "/" }) {
				c14Unit(c, RX{S: rs, N: 3}, dash)
			}
		}
	}
	gr := newRxGram(true)
	t4 := texts("ab\n", 4)
	for n := 1; n <= c.Pick(4, 5); n++ {
		if !c.Level(fmt.Sprintf("reduced:n=%d", n)) {
			return
		}
		for _, rx := range gr.bodies(n) {
			rx := rx
			if c.Unit(func() string { return "@/" + rx.S + "/" }) {
				c14Unit(c, rx, t4)
			}
		}
	}
}
