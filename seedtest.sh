#!/bin/bash
# usage: seedtest.sh <dir-with-patch.diff+demo> <name> <check-id>...
# 1. confirms in a scratch worktree: patch applies, builds, suite passes, demo fails with / passes without the change
# 2. applies the patch to /repo, runs the given checks (quick), reverts /repo
# 3. stores everything under /verif/seeded/<name>/
set -u
SRC=$1; NAME=$2; shift 2
export GOPROXY=off GOSUMDB=off GOTOOLCHAIN=local
WT=/tmp/seedwt-$$
OUT=/verif/seeded/$NAME
mkdir -p $OUT
git -C /repo worktree add -q --detach $WT HEAD || exit 2
cleanup() { git -C /repo worktree remove --force $WT 2>/dev/null; git -C /repo checkout -q -- . ; }
trap cleanup EXIT
runsuite() { (cd $WT && rc=0; for m in . ./libvore ./libvore/algo ./libvore/ast ./libvore/bytecode ./libvore/ds ./libvore/engine ./libvore/files ./libvore/testutils; do (cd $m && GOFLAGS= go build ./... && GOFLAGS= go test -vet=off -count=1 ./... >/dev/null 2>&1) || rc=1; done; exit $rc); }
rundemo() {
  if [ -f $SRC/demo_test.go ]; then
    cp $SRC/demo_test.go $WT/libvore/zz_demo_test.go
    (cd $WT/libvore && GOFLAGS= timeout 120 go test -vet=off -count=1 -run 'Demo|Seed|Test' ./ >/tmp/seeddemo.$$ 2>&1); rc=$?
    (cd $WT/libvore && GOFLAGS= timeout 120 go test -vet=off -count=1 -run "$(grep -o 'func Test[A-Za-z0-9_]*' $SRC/demo_test.go | sed 's/func //' | paste -sd'|')" ./ >/tmp/seeddemo.$$ 2>&1); rc=$?
    rm -f $WT/libvore/zz_demo_test.go
    return $rc
  else
    (cd $WT && timeout 300 bash $SRC/demo.sh >/tmp/seeddemo.$$ 2>&1); return $?
  fi
}
R_APPLY=no; R_SUITE=no; R_DEMO_WITH=unknown; R_DEMO_WITHOUT=unknown
rundemo; [ $? -eq 0 ] && R_DEMO_WITHOUT=pass || R_DEMO_WITHOUT=FAIL
if git -C $WT apply $SRC/patch.diff; then R_APPLY=yes; else echo "patch does not apply"; fi
if [ $R_APPLY = yes ]; then
  runsuite && R_SUITE=pass || R_SUITE=FAIL
  rundemo; [ $? -ne 0 ] && R_DEMO_WITH=fail-as-expected || R_DEMO_WITH=PASSES
fi
echo "confirm: apply=$R_APPLY suite_with_change=$R_SUITE demo_with_change=$R_DEMO_WITH demo_without_change=$R_DEMO_WITHOUT"
cp $SRC/patch.diff $OUT/patch.diff
[ -f $SRC/demo_test.go ] && cp $SRC/demo_test.go $OUT/demo_test.go.txt
[ -f $SRC/demo.sh ] && cp $SRC/demo.sh $OUT/demo.sh
[ -f $SRC/meta.json ] && cp $SRC/meta.json $OUT/agent_meta.json
DET=""
if [ $R_APPLY = yes ] && [ $R_SUITE = pass ] && [ $R_DEMO_WITH = fail-as-expected ] && [ $R_DEMO_WITHOUT = pass ]; then
  git -C /repo apply $SRC/patch.diff || { echo "cannot apply to /repo"; exit 2; }
  for id in "$@"; do
    /verif/run.sh $id quick > $OUT/check_$id.log 2>&1; rc=$?
    nv=$(grep -c '^VIOLATION' $OUT/check_$id.log)
    echo "check $id: exit=$rc violations=$nv  $(grep -m1 -A2 '^VIOLATION' $OUT/check_$id.log | tail -1 | cut -c1-220)"
    DET="$DET $id:exit=$rc:viol=$nv"
  done
  git -C /repo checkout -q -- .
  # evidence files were rewritten by runs on the mutated tree: restore them
  git -C /verif checkout -q -- evidence 2>/dev/null
fi
python3 - <<PY
import json,os
meta={"name":"$NAME","confirm":{"applies":"$R_APPLY","suite_with_change":"$R_SUITE","demo_with_change":"$R_DEMO_WITH","demo_without_change":"$R_DEMO_WITHOUT"},"checks_run":"$DET".split(), "repo_head": os.popen("git -C /repo rev-parse --short HEAD").read().strip()}
try:
    meta["agent"]=json.load(open("$OUT/agent_meta.json"))
except Exception as e: pass
json.dump(meta,open("$OUT/meta.json","w"),indent=1)
PY
rm -f /tmp/seeddemo.$$
