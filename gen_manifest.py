#!/usr/bin/env python3
"""Generates /verif/MANIFEST.json from the table below (one place to keep it consistent)."""
import json, subprocess, sys

ALL = ["C%02d" % i for i in range(1, 21)]

# id -> (category, technique, design_ref, text, note)
CHECKS = {
 "C01": ("exploration", "bounded-exhaustive enumeration of programs x texts against a reference backtracking matcher",
         "DESIGN.md 4/C01",
         "Every program of <= n nodes of five driver grammars (control structure, primitives, anchors, naming/recursion/predicates, reduced-deeper) crossed with every text over a small alphabet up to length 5 is compiled and run by the real engine; the reported spans must equal those of the reference matcher R. Coverage statement, not a sample: no program/text pair inside the stated bounds violates C01.",
         "Trusted: reference matcher vmc/ref.go (documented semantics), Go toolchain. Open: programs larger than the node bound, longer / non-ASCII texts."),
 "C02": ("exploration", "bounded-exhaustive enumeration of capture programs x texts; variables compared with the reference matcher's final environment",
         "DESIGN.md 4/C02",
         "Every program with captures/back-references of <= n nodes (captures under alternation, optional and repeated groups incl. min>=1 loops, inline subroutines, calls, pattern globals) crossed with every text over {a,b} up to length 5: the spans and the complete set of string variables of every reported match must equal the bindings of the successful path computed by the reference matcher, whose environment is persistent (an abandoned path cannot leak by construction).",
         "Trusted: reference matcher vmc/ref.go. Named-loop maps are not compared here."),
}

PENDING_REASON = "check not built yet in this round of work (framework is being extended property by property; see DESIGN.md section 7)"

def main():
    hooks_commits = subprocess.run(["git", "-C", "/repo", "log", "--format=%H %s"], capture_output=True, text=True).stdout.splitlines()
    hook_shas = [l.split()[0] for l in hooks_commits if " verif hook" in l]
    checks = []
    for pid in ALL:
        if pid not in CHECKS:
            continue
        cat, tech, ref, text, note = CHECKS[pid]
        checks.append({
            "property_id": pid,
            "quick_cmd": "./run.sh %s quick" % pid,
            "thorough_cmd": "./run.sh %s thorough" % pid,
            "evidence_file": "/verif/evidence/%s.json" % pid,
            "replay_cmd_template": "/verif/bin/vmc replay {path}",
            "engine": "vmc",
            "level_claimed": {"category": cat, "text": text, "design_ref": ref},
            "level_note": note,
            "technique": tech,
        })
    na = [{"property_id": p, "reason": PENDING_REASON} for p in ALL if p not in CHECKS]
    m = {
        "version": 1,
        "setup_cmd": "./setup.sh",
        "hooks": {
            "guard": "verif",
            "enable": "go build -tags verif (done by run.sh for every check; the harness module /verif/vmc replaces the libvore modules with /repo's working tree)",
            "baseline_off_cmd": "./baseline_off.sh",
            "source_commits": hook_shas,
            "add_only": True,
        },
        "engines": [{
            "name": "vmc", "path": "/verif/vmc",
            "serves_properties": [c["property_id"] for c in checks],
            "kind_free_text": "hand-written bounded-exhaustive explorer in Go: program/text enumerators + reference models, explicit-state BFS over real objects, cooperative-scheduler interleaving explorer; supervisor with sharded worker subprocesses under watchdog",
        }],
        "checks": checks,
        "notes": "All checks rebuild /verif/vmc against /repo's working tree with -tags verif (run.sh). Known findings: /verif/known_findings.json. Seeded property-breaking changes: /verif/seeded/.",
        "not_applicable": na,
    }
    json.dump(m, open("/verif/MANIFEST.json", "w"), indent=1)
    print("wrote MANIFEST.json with", len(checks), "checks,", len(na), "not claimed")

if __name__ == "__main__":
    main()
