#!/usr/bin/env python3
"""Generates /verif/MANIFEST.json from the table below (one place to keep it consistent)."""
import json, subprocess, sys

ALL = ["C%02d" % i for i in range(1, 21)]

# id -> (category, technique, design_ref, text, note)
CHECKS = {
 "C01": ("exploration", "bounded-exhaustive enumeration of programs x texts against a reference backtracking matcher",
         "DESIGN.md 4/C01",
         "Every program of <= n nodes of five driver grammars (control structure, primitives, anchors, naming/recursion/predicates, reduced-deeper) crossed with every text over a small alphabet up to length 5 is compiled and run by the real engine; the reported spans must equal those of the reference matcher R. Coverage statement, not a sample: no program/text pair inside the stated bounds violates C01.",
         "Trusted: reference matcher vmc/ref.go (documented semantics), Go toolchain. Open: programs larger than the node bound, longer / non-ASCII texts."),
 "C02": ("exploration", "bounded-exhaustive enumeration of capture programs x texts; variables compared with the reference matcher's final environment",
         "DESIGN.md 4/C02",
         "Every program with captures/back-references of <= n nodes (captures under alternation, optional and repeated groups incl. min>=1 loops, inline subroutines, calls, pattern globals) crossed with every text over {a,b} up to length 5: the spans and the complete set of string variables of every reported match must equal the bindings of the successful path computed by the reference matcher, whose environment is persistent (an abandoned path cannot leak by construction).",
         "Trusted: reference matcher vmc/ref.go. Named-loop maps are not compared here."),
 "C03": ("exploration", "runtime monitor recomputing every located field of every match over exhaustive program x text enumerations",
         "DESIGN.md 4/C03",
         "Every match reported by every program of the layout driver D6 (<= 3 nodes over newline-rich atoms, whole line/word/file, anchors), of D1/D4 and of fixed regex-literal, named-loop and recursion programs, under six amount clauses, as find and replace, on every text over {a,' ',\\n} up to length 4-5, is re-derived from the input bytes: bounds, value, order, non-overlap, consecutive numbering, 1-based line and column of both ends, variables are substrings.",
         "ASCII inputs. Acceptance of programs is C08/C15's subject; rejected sources are skipped and counted."),
 "C04": ("exploration", "metamorphic full-product enumeration: every amount clause vs the slice of `find all`",
         "DESIGN.md 4/C04",
         "For every body (all D1 programs <= 3 nodes, overlap-prone literals, nullable, multi-line and capture bodies), every text up to length 5-6 and EVERY clause skip s / skip s take t / top n / take n / last n with s,t,n in 0..maxlen+1, as find and as replace, the result must be exactly the named slice of the `find all` result, match records compared field by field including MatchNumber.",
         "`last 0` excluded (undocumented). A itself is validated by C01/C03."),
 "C05": ("exploration", "bounded-exhaustive enumeration of `with` lists x bodies x texts against a replacement computed from the match record",
         "DESIGN.md 4/C05",
         "All `with` lists of length <= 3 over 17 item kinds (strings, captures, all 8 built-ins, an undefined name, 4 transforms) x 10 bodies whose captures differ between matches x all texts over {a,b,\\n} up to length 3-4: Replacement must equal the in-order concatenation computed independently from the same match's record, and matches must equal those of `find all`.",
         "The four transforms are fixed programs; the general evaluator is C11's subject."),
 "C10": ("model_checking", "exhaustive exploration of the deterministic VM's configuration sequence under a step monitor (hook H1)",
         "DESIGN.md 4/C10",
         "Every nullable-body program of <= 4 (thorough 5) nodes, guarded recursion behind every consuming primitive, and fixed nested / named-loop / regex programs are run to completion on every text over {a,\\n} up to length 4 with the VM's executed instructions counted by the in-repo hook; exceeding 5e6 instructions (about 17x the largest legitimate count in scope, which is reported) or 20 s without progress is non-termination.",
         "Bounded: termination is decided as 'within the step/time budget' on the enumerated scope, not proved for larger programs."),
 "C13": ("model_checking", "differential enumeration of naming variants + explicit enumeration of Compile/Run histories on live objects with a bytecode state key",
         "DESIGN.md 4/C13",
         "(a) every capture-free body x 8 contexts x 5 naming variants (+ nested definitions referenced twice, inline subroutine inside a stored pattern, three levels) must report the spans of the written-out body on every text; (b) every 1-3 command source over 6 commands sharing 2 definitions equals the concatenation of its commands alone; (c) all Compile/Run histories to depth 3 (thorough 4) over 7 sources x 3 texts: each operation returns what it returns first in a fresh process, recompilation yields identical bytecode modulo loop ids, and no operation changes any live program's bytecode.",
         "Reflection reads *Vore's unexported bytecode for the state key (degrades, and says so, if the field disappears)."),
 "C08": ("exploration", "bounded-exhaustive enumeration of source texts (token soups in context, all prefixes and one-token edits of a corpus, regex bodies, raw bytes) under a supervisor with watchdog",
         "DESIGN.md 4/C08",
         "About 5.6 million distinct sources per quick run: all <=3-token sequences over a 66-token alphabet in 14 grammatical contexts, every byte and token prefix and every one-token deletion / duplication / swap / substitution of every corpus program, every regex-literal body of <= 4 chars over 24 chars, all byte strings of <= 2 bytes. Each must yield program xor printable error, without panic, within 20 s / 2 GiB (worker subprocess + watchdog, solo confirmation); an accepted program's tree has no nil node and every command was generated.",
         "Totality is decided on the enumerated short sources only; super-linear behaviour on long inputs is out of reach of a bounded check."),
 "C11": ("exploration", "table-complete enumeration of operator x operand cells plus all small expression trees against an independent evaluator",
         "DESIGN.md 4/C11",
         "Every binary operator x every ordered pair of 16 operand expressions and every unary operator x operand (cells the documented typing accepts), on two match texts, observed through a transform and - for booleans - through `if` and a predicate; plus every typed expression tree with <= 3 operators rendered with minimal and with full parentheses (same parse tree required, value compared). Oracle: evaluator written from LanguageDetails.md's two tables.",
         "Divisor 0 excluded (undocumented). Relative precedence of ==/!= vs < > <= >= is not fixed by the docs: trees mixing them are excluded."),
 "C12": ("exploration", "exhaustive enumeration of operator/type cells and statement lists against a reference type checker; accepted programs are executed",
         "DESIGN.md 4/C12",
         "All operator x (lhs,rhs) type cells over type-representative leaves, all depth-2 compositions, every statement list of <= 2 statements over a ~600-statement pool and of 3 over the simple pool, in predicate and transform context: Compile accepts iff the reference checker (written from the documented tables) does, don't-care only for bool with - * / % and a number; every accepted program with provably terminating loops is run on two texts and must not panic.",
         "Each variable keeps one type (as the property states)."),
 "C15": ("exploration", "deviation-bounded exhaustive re-layout of a program corpus (every gap x filler, pairs of gaps, keyword case) with tree and result comparison",
         "DESIGN.md 4/C15",
         "Every corpus/generated program (repository examples, every source the tests compile, one program per production) in a minimal layout, then every gap x 6 fillers (1 deviation), all gap pairs x filler pairs on short programs (2 deviations), every keyword in UPPER/Title case: accepted iff the original, parse trees DeepEqual, Run results equal on 3 probe texts.",
         "The variant generator's tokenizer is independent of the lexer. A filler starting with '-' directly after a '-' token gets a leading blank (they would fuse into a comment start)."),
 "C16": ("exploration", "exhaustive enumeration of literal spellings against an independent decoder",
         "DESIGN.md 4/C16",
         "Every byte 0x01..0x7f in every spelling and quote style, every pair of bytes in every spelling combination, every body of <= 6 chars over {\\, x, 0, a, G, ', \"}: parsed value == independently decoded bytes; the literal matches its text once and in full and no one-byte perturbation.",
         "ASCII only."),
 "C06": ("model_checking", "explicit enumeration of the RunFiles file-system state transition (full directory snapshot as state) over commands x contents x modes x pre-states",
         "DESIGN.md 4/C06",
         "Every transition of the finite product 14 commands x all file contents over {a,b,\\n} up to length 3-4 plus buffer-boundary sized files x {NOTHING, NEW, OVERWRITE} x {no / stale longer / stale shorter .vored} x {one, two files} is executed on the real RunFiles in a scratch directory; the complete directory afterwards must equal the expected directory, whose contents are computed by slicing the input with the spans and replacements of Run(string).",
         "OS writes trusted; no crash points (no property asks)."),
 "C07": ("model_checking", "explicit-state BFS of the real buffered reader's window machine (state key by reflection) + file-vs-string differential of the engine",
         "DESIGN.md 4/C07",
         "(a) For 12 (thorough 22) file sizes incl. 0 and the neighbourhoods of 2048/4096/6144/8192, BFS from the initial window over the engine's operation alphabet (Seek;Read and ReadAt at ~60 offsets x 7 lengths) until no new (minOffset,maxOffset) state appears: window content invariant in every state, returned bytes compared with the file on every transition. (b) 15 programs (one-byte-back anchors, lazy scan to end of file with far-back restarts, greedy backtracking, back-references, replace, whole line) x files with the motif at every offset around the buffer boundaries: RunFiles(NOTHING) must equal Run(string) field by field.",
         "Greedy backtracking programs are capped at 700-byte files (the VM keeps one stack copy per byte: quadratic memory); larger files use the lazy variant."),
 "C09": ("exploration", "bounded-exhaustive enumeration of accepted programs x all texts from length 0 with a no-panic oracle (panics recovered per case, hangs by watchdog)",
         "DESIGN.md 4/C09",
         "Every primitive (incl. empty literals, multi-byte not / not-in / ranges, whole *, all anchors and negations) alone, in pairs, under every loop, captured and back-referenced, and as the body of (nested) pattern definitions referenced after a capture / in loops / twice; D1/D3/D4/D6/D7 programs; fixed named-loop, regex \\b \\B, recursion programs; each on every text of its alphabet from the empty text up; every operator applied to a variable whose type depends on the branch taken; RunFiles on empty / 1-byte / directory targets. No panic of any kind.",
         "One known finding (F-dynamic-type, see known_findings.json) is attributed by a predicate on the input and printed as KNOWN-FINDING."),
 "C14": ("translation_validation", "bounded-exhaustive enumeration of regexes; engine vs reference matcher on an independent parse, cross-validated against Go regexp position by position",
         "DESIGN.md 4/C14",
         "Every regex of <= 3 nodes (and 4 nodes on texts <= 2; thorough: 4 on all texts) over the documented subset incl. named/numbered groups, lazy forms of every quantifier, back-references, plus a reduced grammar to 4-5 nodes, on every text over {a,b,1,' ',\\n} up to length 3-4: spans and group bindings of `find all @/re/` must equal those of the reference matcher R applied to an independent parse of the regex; on every back-reference-free case R itself must agree with Go's regexp (about 3 million agreeing cases per quick run), otherwise the run ends with ORACLE-DISAGREEMENT (exit 2).",
         "Go regexp trusted as a conventional backtracking engine on the subset; texts exclude \\r \\f \\v."),
 "C17": ("exploration", "bounded-exhaustive enumeration of result lists (programs x texts with quotes, backslashes, control and non-UTF-8 bytes) decoded with encoding/json",
         "DESIGN.md 4/C17",
         "24 programs (find/replace, flat and nested variables, zero matches, windows, two commands) x every text of <= 4 symbols over {a, quote, backslash, newline, 0x01, a 2-byte rune, 0xff, tab}: Json() and FormattedJson() return, are valid JSON, decode to equal documents, one object per match with every field equal to the in-memory match (exactly for valid UTF-8, after per-byte U+FFFD substitution otherwise), replacement key present exactly for replace commands.",
         "encoding/json trusted as arbiter."),
 "C18": ("model_checking", "exhaustive execution of the CLI's finite configuration space (full cross product) on the binary built from the current tree, against the library on a twin directory",
         "DESIGN.md 4/C18",
         "All 3840 configurations {-com,-src} x 4 programs x 3 file sets x 4 stdout modes x -json-file x -formatted-json-file x 5 replace modes x -no-output run on the real binary in fresh directories: exit status; stdout/JSON files are exactly one JSON document equal field by field to the library result on a twin directory; directory post-state equals the twin's (mode honoured, NEW default); invalid combinations / unknown mode / compile error exit non-zero with a message and change nothing.",
         "With -no-output or zero matches the content of JSON outputs is not fixed by the documentation and is not compared."),
 "C20": ("exploration", "exhaustive enumeration of patterns x names on real directories against a reference glob matcher",
         "DESIGN.md 4/C20",
         "A real directory with a file for every name of <= 3 chars over {a,b,.} x every pattern of <= 4 chars over {a,b,.,*} with <= 3 stars (thorough: 4 / 5), and a real depth-3 tree x every 1-3 segment pattern over 10 directory and 12 file segments, relative and absolute: the returned list equals, as a set, the files whose path matches segment by segment; no duplicates, no directories.",
         "Star-only directory segments and ./.. excluded as in the property."),
 "C19": ("model_checking", "stateless exploration of thread interleavings under a cooperative scheduler (preemption-bounded DFS) with a vector-clock race check; instrumentation generated from the current tree",
         "DESIGN.md 4/C19",
         "Six 2-3 thread scenarios of concurrent Compile and Run calls (shared and private programs) are executed on the real code under a scheduler that runs one goroutine at a time and may switch at every access to a package-level variable of libvore (found by type-checking the current tree; the overlay is regenerated on every run), every lock operation (sync types replaced by scheduler-aware shims), every VM instruction and call boundary; all schedules with <= 2 (thorough 3) preemptions run to completion (~39k executions per quick run). Every call must return what it returns alone, no two accesses to an instrumented variable with a write may be unordered by program order / lock hand-over, shared bytecode must not change, no deadlock.",
         "Accesses to heap objects that are neither package-level variables nor visible in results or bytecode, and memory-model effects, are outside the explorer's alphabet."),
}

PENDING_REASON = "check not built yet in this round of work (framework is being extended property by property; see DESIGN.md section 7)"

def main():
    hooks_commits = subprocess.run(["git", "-C", "/repo", "log", "--format=%H %s"], capture_output=True, text=True).stdout.splitlines()
    hook_shas = [l.split()[0] for l in hooks_commits if " verif hook" in l]
    checks = []
    for pid in ALL:
        if pid not in CHECKS:
            continue
        cat, tech, ref, text, note = CHECKS[pid]
        checks.append({
            "property_id": pid,
            "quick_cmd": "./run.sh %s quick" % pid,
            "thorough_cmd": "./run.sh %s thorough" % pid,
            "evidence_file": "/verif/evidence/%s.json" % pid,
            "replay_cmd_template": "/verif/bin/vmc replay {path}",
            "engine": "vmc",
            "level_claimed": {"category": cat, "text": text, "design_ref": ref},
            "level_note": note,
            "technique": tech,
        })
    na = [{"property_id": p, "reason": PENDING_REASON} for p in ALL if p not in CHECKS]
    m = {
        "version": 1,
        "setup_cmd": "./setup.sh",
        "hooks": {
            "guard": "verif",
            "enable": "go build -tags verif (done by run.sh for every check; the harness module /verif/vmc replaces the libvore modules with /repo's working tree)",
            "baseline_off_cmd": "./baseline_off.sh",
            "source_commits": hook_shas,
            "add_only": True,
        },
        "engines": [{
            "name": "vmc", "path": "/verif/vmc",
            "serves_properties": [c["property_id"] for c in checks],
            "kind_free_text": "hand-written bounded-exhaustive explorer in Go: program/text enumerators + reference models, explicit-state BFS over real objects, cooperative-scheduler interleaving explorer; supervisor with sharded worker subprocesses under watchdog",
        }],
        "checks": checks,
        "notes": "All checks rebuild /verif/vmc against /repo's working tree with -tags verif (run.sh). Known findings: /verif/known_findings.json. Seeded property-breaking changes: /verif/seeded/.",
        "not_applicable": na,
    }
    json.dump(m, open("/verif/MANIFEST.json", "w"), indent=1)
    print("wrote MANIFEST.json with", len(checks), "checks,", len(na), "not claimed")

if __name__ == "__main__":
    main()
