#!/usr/bin/env python3
"""Regenerates /verif/known_findings.json: `fixed` entries resolved against /repo's git log by commit subject,
plus the hand-maintained `finding` entries below. Never run by a check."""
import json, subprocess

# subject prefix -> (properties, what failed (smallest reproduced input))
FIXED = [
 ("fix: negated character classes", ["C01","C14"], "`find all 'a' not digit` on 'a' matched 'a': not digit/upper/lower/letter succeeded with zero width at end of input"),
 ("fix: word start is false at end of input", ["C01"], "`find all 'a' word start` on 'a' matched; `word end '!'` on '!' matched: word anchors wrong at offset 0 / end of input"),
 ("fix: relocating a stored pattern moves a subroutine's id", ["C01","C13"], "`set p to pattern {'a' maybe q 'b'} = q 'd'  find all p` on 'aabbd' matched 'ab': recursive subroutine inside a relocated pattern"),
 ("fix: relocating a stored pattern no longer mutates", ["C13"], "`set p to pattern 'a' or 'b'` referenced from two commands: both commands mis-matched (branch table relocated in place)"),
 ("fix: choice points snapshot the variable bindings", ["C02"], "`find all ('a' = x 'b') or ('a' 'c')` on 'ac' reported x='a' (binding of an abandoned alternative)"),
 ("fix: zero-length reads return the empty string", ["C02","C09"], "`find all 'b' (maybe 'a') = x x` on 'b': back-reference to an empty capture failed and panicked with EOF at end of input"),
 ("fix: matches passed over by `skip n`", ["C04"], "`find skip 1 take 1 'aa'` on 'aaaa' returned [1,3) instead of [2,4)"),
 ("fix: a command with an empty body", ["C09"], "`find all ()` on any non-empty text: index out of range fetching pc 0 of an empty program"),
 ("fix: opening an empty file", ["C07","C09","C18"], "RunFiles on an empty file panicked with EOF in NewBufferedFile"),
 ("fix: number == number", ["C11"], "`1 == 2` evaluated to true and `1 != 2` to false (compared truthiness)"),
 ("fix: bool < > <= >=", ["C11"], "`true < 2` evaluated to true: right operand not coerced to bool before comparing"),
 ("fix: a capture or subroutine inside a loop with a minimum count", ["C02","C14"], "`find all at least 1 ('a' = x)` and `@/(a)+/` rejected with \"name clash\""),
 ("fix: regex capture groups are numbered per command", ["C13"], "two commands `find all @/(a)(b|d)\\1?/` in one source: second rejected with \"identifier '_1' is not defined\""),
 ("fix: nested regex groups are numbered", ["C14"], "`@/((a)b)/` bound _1='a', _2='ab' (numbered by closing parenthesis)"),
 ("fix: an unterminated regex literal", ["C08"], "`find all @/abc` never returned: the lexer looped at end of input while allocating"),
 ("fix: `--` at the end of the input", ["C08"], "`find all 'a' --` panicked \"Unknown final state\""),
 ("fix: input ending right after a backslash", ["C08"], "`'a\\` and `!` at end of input panicked \"Unknown final state\""),
 ("fix: malformed or unsupported regex literals", ["C08","C14"], "`@/\\/`, `@/a{/`, `@/(?=a)/`, `@/[\\d]/` panicked; `@/a)b/` silently meant `a`"),
 ("fix: a regex quantifier like", ["C08"], "`find all @/]{1a/` never returned: the regex parser restarted at index 0 forever"),
 ("fix: process expressions that are empty", ["C08"], "`set f to transform return end`, `if ( 3`, `return 1 +` panicked with index out of range or produced a nil node"),
 ("fix: `named` not followed by a name", ["C08"], "`find all at least 1 'a' named` crashed the code generator (nil loop, nil error)"),
 ("fix: comments inside process expressions", ["C15"], "`return match --(c)-- == 'a'` rejected: comments were not skipped inside expressions"),
 ("fix: whitespace or a comment before a comma", ["C15"], "`in 'a', 'b' to 'd' , whitespace` rejected: blank before a comma after the second item"),
 ("fix: `( )` and `{ } = name`", ["C15"], "`find all ( )` rejected while `find all ()` is accepted"),
 ("fix: an incomplete", ["C16"], "`'\\xZZ'` denoted 'xZ' (a character was lost after an incomplete \\x escape)"),
 ("fix: a backslash before a whitespace character", ["C16"], "`'\\ '` rejected as an unending string"),
 ("fix: `break`/`continue` after an inner loop", ["C12"], "`loop loop break end break end` rejected"),
 ("fix: division and modulo by zero", ["C09","C12"], "`return 10 / match` on non-numeric text panicked with integer divide by zero"),
 ("fix: an empty line comment", ["C15"], "`--` directly followed by a newline swallowed the whole next line (`--\\nfind all 'a'` parsed to nothing)"),
 ("fix: a block comment whose text ends in", ["C15"], "`find --( x )-)-- all 'a'` rejected as an unending block comment"),
 ("fix: whitespace or a comment after the amount clause", ["C15"], "`find all` is accepted but `find all ` (trailing blank) was rejected"),
 ("fix: Matches.Json() converts", ["C17","C18"], "Matches.Json() panicked on every call (type assertion on the named slice type), so `-json` could not work"),
 ("fix: a binding made inside a named loop on an abandoned path", ["C02","C03"], "`find all at least 1 (('a' = x 'b') or ('a' 'c')) named lp` on 'ac' reported lp/0/x='a': the saved choice point shared the named loop's per-iteration variable maps with the abandoned path"),
 ("fix: a named loop refuses an empty mandatory iteration", ["C01","C02"], "`find all at least 2 (maybe 'a') named lp` on 'a' found nothing although the same loop without a name matches [0,1): the zero-length-iteration guard also rejected required iterations"),
 ("fix: compiling a loop costs time and memory in proportion to its minimum count", ["C08"], "Compile(\"find all exactly 2147483647 'a'\") never returned and exhausted memory: the mandatory iterations of a loop were unrolled"),
 ("fix: a symbolic link to a directory, or a dangling one, is listed as a file", ["C20"], "pattern `*` in a directory holding a symbolic link to a directory listed the link as a file (DirEntry.IsDir() is false for every link); found when symbolic links were added to the C20 trees after seeded change C20-r4B"),
 ("fix: `*` in a file pattern", ["C20"], "`*.txt` did not select `a.txt.txt`, `a*b` did not select `abxb` (first-occurrence search)"),
 ("fix: ParsePath no longer prints", ["C18"], "`vore -com .. -files a.txt -json` printed `[{entryType:2 value:a.txt}]` before the JSON document"),
 ("fix: -json-file / -formatted-json-file open", ["C18"], "`vore .. -json-file out.json` panicked: truncate out.json: invalid argument (file opened read-only)"),
 ("fix: concurrent Compile calls no longer race", ["C19"], "two concurrent Compile calls of sources with regex groups: unsynchronised writes to the package-level group counter; with one preemption a Compile fails with \"identifier '_2' is not defined\""),
]

FINDINGS = [
 {"kind":"finding","property":"C09","id":"F-dynamic-type",
  "what":"accepted process code in which a variable is assigned values of two different types on the two branches of an `if` reaches the evaluator's `SHOULDN'T GET HERE` panic when the branch taken gives it the type the checker did not record (the checker keeps only the last assignment's type)",
  "where":"libvore/bytecode/semanticcheck.go checkIf/checkSet (one shared environment, last assignment wins); libvore/engine/execute.go executeBinaryExpr panics at the end of each type branch",
  "class":"predicate on the INPUT: the generated program assigns x in the then-branch and in the else-branch expressions of different static types, AND the panic message starts with \"SHOULDN'T GET HERE\"; a panic of any other kind, or with equal branch types, is still a violation",
  "cases":["set f to transform if match == 'a' or match == '7' then set x to true else set x to 0 end set r to x + 3 return 'v' + r end\nreplace all at least 1 any with f  on 'a'",
           "set p to pattern at least 1 any begin if match == 'a' or match == '7' then set x to '' else set x to 0 end set r to x - '' return r == r end\nfind all p  on 'a'",
           "set p to pattern at least 1 any begin if match == 'a' or match == '7' then set x to 0 else set x to true end set r to x or 3 return r == r end\nfind all p  on 'a'"],
  "why_not_fixed":"a repair has to choose between making the checker flow-sensitive (reject or merge branch types) and defining coercions for every operator/type cell the table leaves undefined; neither is a few-line patch a maintainer would obviously accept"},
]

def main():
    log = subprocess.run(["git","-C","/repo","log","--format=%h\t%s"],capture_output=True,text=True).stdout.splitlines()
    entries = []
    for prefix, props, what in FIXED:
        sha = next((l.split("\t")[0] for l in log if l.split("\t",1)[1].startswith(prefix)), None)
        if sha is None:
            raise SystemExit("no commit for "+prefix)
        for p in props:
            entries.append({"kind":"fixed","property":p,"commit":sha,"what":what,
                            "line":"fixed: property=%s %s %s" % (p, sha, what)})
    entries += FINDINGS
    json.dump({"comment":"`fixed` entries suppress nothing; `finding` entries suppress exactly the listed cases / class predicate (see DESIGN.md 3.8). Never written at run time.",
               "entries":entries}, open("/verif/known_findings.json","w"), indent=1)
    print(len(entries),"entries")
main()
