#!/bin/bash
# runs every check's thorough tier once, sequentially (used with `vp run` from a snapshot)
cd "$(dirname "$0")"
for i in $(seq -w 1 20); do
  /usr/bin/time -f "C$i wall=%es" ./run.sh C$i thorough 2>&1 | grep -v "^\[worker" | grep "VIOLATION\|class:\|smallest\|^C$i\|KNOWN\|HARNESS\|ORACLE\|wall=" | cut -c1-400
done
