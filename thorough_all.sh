#!/bin/bash
# runs every check's thorough tier once, sequentially (used with `vp run` from a snapshot)
cd "$(dirname "$0")"
for i in $(seq -w 1 20); do
  /usr/bin/time -f "C$i wall=%es" ./run.sh C$i thorough 2>&1 | tail -4 | cut -c1-600
done
