#!/usr/bin/env python3
"""Rewrites the generated table of DESIGN.md section 8 (between the two marker lines) from
seeded/RESULTS.txt (last `reseed.sh` run) and seeded/*/meta.json. Never run by a check."""
import json, os, re, glob

ROOT = os.path.dirname(os.path.abspath(__file__))
BEGIN = "| seeded change | what it does | confirmed (suite passes, demo fails with / passes without) | owning check, quick tier, final machinery (`reseed.sh`) |"

def clean(s, n):
    s = re.sub(r"\s+", " ", s).replace("|", "/")
    return s[:n]

res = {}
for line in open(os.path.join(ROOT, "seeded/RESULTS.txt"), errors="replace"):
    line = line.rstrip("\n").replace("\r", "")
    m = re.match(r"^(C\d\d-[A-Za-z0-9-]+): (.*)$", line)
    if m:
        res[m.group(1)] = m.group(2)

rows = []
detected = missed = obsolete = 0
for d in sorted(glob.glob(os.path.join(ROOT, "seeded/C*/"))):
    name = os.path.basename(d.rstrip("/"))
    try:
        meta = json.load(open(os.path.join(d, "meta.json")))
    except Exception:
        continue
    what = clean(meta.get("agent", {}).get("what_changed", ""), 200)
    conf = meta.get("confirm", {})
    ok = conf.get("suite_with_change") == "pass" and conf.get("demo_with_change") == "fail-as-expected" and conf.get("demo_without_change") == "pass"
    r = res.get(name, "")
    if "no longer applies" in r:
        verdict = "patch no longer applies (the code it changes was removed by a later fix); detected at /repo %s" % meta.get("repo_head", "?")
        obsolete += 1
    elif re.search(r"exit=1 violations=[1-9]", r):
        first = r.split("smallest:", 1)[1].strip() if "smallest:" in r else ""
        verdict = "DETECTED: " + clean(first, 170)
        detected += 1
    else:
        verdict = "not detected by the owning check (see the round tables)"
        missed += 1
    rows.append("| %s | %s | %s | %s |" % (name, what, "yes" if ok else "NO", verdict))

p = os.path.join(ROOT, "DESIGN.md")
s = open(p).read()
i = s.index(BEGIN)
j = s.index("\n\n", i)
table = BEGIN + "\n|---|---|---|---|\n" + "\n".join(rows)
s = s[:i] + table + s[j:]
open(p, "w").write(s)
print("rows=%d detected=%d missed=%d obsolete=%d" % (len(rows), detected, missed, obsolete))
