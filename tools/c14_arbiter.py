#!/usr/bin/env python3
"""C14 thorough tier: independent arbiter for regexes WITH back-references (Go's regexp has none).
Reads JSON lines {"re": <regex in vore/ECMAScript syntax>, "cases": [[text, expected_by_R], ...]} and
re-computes, with Python's re (a conventional backtracking engine), the leftmost non-empty,
non-overlapping matches and their group bindings. Prints one JSON line:
{"checked": n, "disagreements": [[re, text, python, R], ...]}"""
import sys, re, json

def translate(rx):
    return rx.replace("(?<", "(?P<").replace("\\k<", "(?P=").replace("(?P=n>", "(?P=n)")

def fmt_vars(pat, m):
    names = {v: k for k, v in pat.groupindex.items()}
    out = {}
    unnamed = 0
    for i in range(1, pat.groups + 1):
        if i in names:
            name = names[i]
        else:
            unnamed += 1
            name = "_%d" % unnamed
        if m.group(i) is not None:
            out[name] = m.group(i)
    return "".join('%s=%s;' % (k, json.dumps(out[k], ensure_ascii=False)) for k in sorted(out))

def scan(pat, text):
    res, pos = [], 0
    while pos < len(text):
        m = pat.match(text, pos)
        if m and m.end() > pos:
            v = fmt_vars(pat, m)
            res.append("[%d,%d)%s" % (pos, m.end(), "{" + v + "}" if v else ""))
            pos = m.end()
        else:
            pos += 1
    return "[" + " ".join(res) + "]"

def main():
    checked, dis = 0, []
    for path in sys.argv[1:]:
        for line in open(path, encoding="utf-8"):
            rec = json.loads(line)
            try:
                pat = re.compile(translate(rec["re"]), re.M)
            except re.error:
                continue
            for text, want in rec["cases"]:
                checked += 1
                got = scan(pat, text)
                if got != want and len(dis) < 20:
                    dis.append([rec["re"], text, got, want])
    print(json.dumps({"checked": checked, "disagreements": dis}))

main()
