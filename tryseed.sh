#!/bin/bash
# usage: tryseed.sh <seed-name> <check-id> [tier]   applies a stored seeded change to /repo, runs one check, restores /repo
cd /verif || exit 2
git -C /repo diff --quiet || { echo "/repo has local changes; aborting"; exit 2; }
git -C /repo apply /verif/seeded/$1/patch.diff || exit 2
./run.sh $2 ${3:-quick} > /tmp/tryseed.$$ 2>&1; rc=$?
echo "$1 / $2: exit=$rc violations=$(grep -c '^VIOLATION' /tmp/tryseed.$$) $(grep -m1 -A2 '^VIOLATION' /tmp/tryseed.$$ | tail -1 | cut -c1-300)"
tail -1 /tmp/tryseed.$$ | grep -o "wall=[0-9.]*s"
git -C /repo checkout -q -- .
git -C /verif checkout -q -- evidence 2>/dev/null
rm -f /tmp/tryseed.$$
