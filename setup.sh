#!/bin/bash
# Run once after a fresh restore, offline: builds the framework from files on disk and warms the Go build cache.
set -u
cd /verif/vmc || exit 2
export GOFLAGS=-mod=mod GOWORK=off GOPROXY=off GOSUMDB=off GOTOOLCHAIN=local CGO_ENABLED=0
mkdir -p /verif/bin /verif/evidence /verif/replays
go build -tags verif -o /verif/bin/vmc . || exit 1
# CLI binary used by C18 (built from /repo's tree; rebuilt by the check itself as well)
(cd /repo && GOFLAGS= GOWORK= go build -o /verif/bin/vore-cli . ) || exit 1
echo "setup ok"
