#!/bin/bash
# Runs the repository's own test suite with the verification guard OFF (no -tags verif).
set -u
export GOPROXY=off GOSUMDB=off GOTOOLCHAIN=local GOFLAGS=
cd /repo || exit 2
rc=0
for m in . ./libvore ./libvore/algo ./libvore/ast ./libvore/bytecode ./libvore/ds ./libvore/engine ./libvore/files ./libvore/testutils; do
  (cd $m && go test -vet=off -count=1 ./...) || rc=1
done
exit $rc
