#!/bin/bash
# usage: run.sh <property-id> <quick|thorough>
# Rebuilds vmc against /repo's current working tree (hooks on: -tags verif) and runs one check.
set -u
ROOT=$(cd "$(dirname "$0")" && pwd)
export VERIF_ROOT=$ROOT
cd "$ROOT/vmc" || exit 2
export GOFLAGS=-mod=mod GOWORK=off GOPROXY=off GOSUMDB=off GOTOOLCHAIN=local CGO_ENABLED=0
mkdir -p "$ROOT/bin"
OV=()
if [ -n "${VERIF_OVERLAY:-}" ]; then OV=(-overlay "$VERIF_OVERLAY"); fi
if ! go build -tags verif "${OV[@]}" -o "$ROOT/bin/vmc" . 2>"$ROOT/bin/build.err"; then
  echo "BUILD FAILED (the tree under /repo does not compile with -tags verif):"; cat "$ROOT/bin/build.err"; exit 2
fi
exec "$ROOT/bin/vmc" check "$1" --tier "${2:-quick}"
